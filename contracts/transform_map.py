"""Contracts for prosemirror/transform/map.py (C08; used by C03, C04, C17)."""
import os

from pyvc.api import axiom, cls, contract, lemma, spec_file

F = "prosemirror/transform/map.py"
spec_file(os.path.join(os.path.dirname(os.path.dirname(os.path.abspath(__file__))), "spec", "mapspec.py"))

cls("MapResult", F, {"pos": "int", "del_info": "int", "recover": "opt[int]"})
cls("StepMap", F, {"ranges": "list[int]", "inverted": "bool"})
cls(
    "Mapping",
    F,
    {"maps": "list[StepMap]", "mirror": "opt[list[int]]", "from_": "int", "to": "int"},
    mutable={"maps", "mirror", "to"},
)

P = ["C08"]

# ---------------------------------------------------------------- recover values
contract(F, "make_recover", {"index": "int", "offset": "int"}, returns="int",
         ensures=["result == index + offset * 65536"], props=P)
contract(F, "recover_index", {"value": "int"}, returns="int",
         ensures=["result == value % 65536", "0 <= result", "result < 65536"], props=P)
contract(F, "recover_offset", {"value": "int"}, returns="int",
         ensures=["result * 65536 + value % 65536 == value"], props=P)

lemma("recover-roundtrip", {"i": "int", "o": "int"},
      requires=["0 <= i", "i < 65536", "o >= 0"],
      ensures=["(i + o * 65536) % 65536 == i",
               "((i + o * 65536) - (i + o * 65536) % 65536) == o * 65536"],
      props=P)

lemma("start-le-end", {"r": "list[int]", "inv": "bool", "k": "int"},
      requires=["wf(r, inv)", "0 <= k", "k < len(r) // 3"],
      ensures=["start_(r, inv, k) <= end_(r, inv, k)", "old_(r, inv, k) >= 0", "new_(r, inv, k) >= 0"],
      triggers=["start_(r, inv, k)"], props=P)

# ---------------------------------------------------------------- MapResult
for name, mask in (("deleted", 8), ("deleted_before", 5), ("deleted_after", 6), ("deleted_across", 4)):
    contract(F, f"MapResult.{name}", {"self": "MapResult"}, returns="bool", is_property=True,
             requires=["0 <= self.del_info", "self.del_info < 16"],
             ensures=[f"result == (band(self.del_info, {mask}) > 0)"], props=P)

# ---------------------------------------------------------------- StepMap
WF = "wf(self.ranges, self.inverted)"
NR = "len(self.ranges) // 3"
R = "self.ranges, self.inverted"

MAP_SIMPLE = [
    f"result == rule({R}, pos, assoc)",
    # the documented rule, stated declaratively for an arbitrary range index m
    f"all_(0, {NR} + 1, lambda m: implies(gap({R}, pos, m), result == pos + D({R}, m)))",
    f"all_(0, {NR}, lambda m: implies(inside({R}, pos, m), result == inside_result({R}, pos, assoc, m)))",
]
MAP_FULL = [
    f"result.pos == rule({R}, pos, assoc)",
    f"all_(0, {NR} + 1, lambda m: implies(gap({R}, pos, m), result.pos == pos + D({R}, m) and result.recover is None and result.del_info == 0))",
    f"all_(0, {NR}, lambda m: implies(inside({R}, pos, m), result.pos == inside_result({R}, pos, assoc, m)))",
    f"all_(0, {NR}, lambda m: implies(inside({R}, pos, m), (result.recover is None) == recover_plain({R}, pos, assoc, m)))",
    f"all_(0, {NR}, lambda m: implies(inside({R}, pos, m) and not recover_plain({R}, pos, assoc, m), result.recover == m + (pos - start_({R}, m)) * 65536))",
    f"all_(0, {NR}, lambda m: implies(inside({R}, pos, m), result.del_info == del_flags({R}, pos, assoc, m)))",
    f"result.recover is not None ==> 0 <= result.recover and result.recover % 65536 < {NR} and (result.recover - result.recover % 65536) // 65536 >= 0",
    f"(result.recover is None) == (recover_of({R}, pos, assoc) < 0)",
    f"result.recover is not None ==> result.recover == recover_of({R}, pos, assoc)",
    "0 <= result.del_info",
    "result.del_info < 16",
]

MAP_LOOP = {
    0: dict(
        invariant=[
            f"diff == D({R}, i // 3)",
            f"all_(0, i // 3, lambda j: end_({R}, j) < pos)",
            f"rule({R}, pos, assoc) == rule_from({R}, pos, assoc, i // 3)",
            f"find_m({R}, pos, 0) == find_m({R}, pos, i // 3)",
        ],
    )
}

contract(F, "StepMap._map", {"self": "StepMap", "pos": "int", "assoc": "int", "simple": "bool"},
         requires=[WF],
         cases=[dict(when="simple", returns="int", ensures=MAP_SIMPLE),
                dict(when="not simple", returns="MapResult", ensures=MAP_FULL)],
         loops=MAP_LOOP, uses=["start-le-end"], props=P + ["C03", "C17"])

contract(F, "StepMap.map", {"self": "StepMap", "pos": "int", "assoc": "int"}, returns="int",
         requires=[WF], ensures=MAP_SIMPLE, props=P)
contract(F, "StepMap.map_result", {"self": "StepMap", "pos": "int", "assoc": "int"}, returns="MapResult",
         requires=[WF], ensures=MAP_FULL, props=P)

contract(F, "StepMap.recover", {"self": "StepMap", "value": "int"}, returns="int",
         requires=["len(self.ranges) % 3 == 0", f"value % 65536 < {NR}"],
         ensures=["result == self.ranges[3 * (value % 65536)] + (0 if self.inverted else D(self.ranges, False, value % 65536))"
                  " + (value - value % 65536) // 65536"],
         loops={0: dict(invariant=["diff == D(self.ranges, False, i)", "index == value % 65536", "not self.inverted"])},
         props=P)

contract(F, "StepMap.touches", {"self": "StepMap", "pos": "int", "recover": "int"}, returns="bool",
         requires=[WF],
         ensures=[f"result == (recover % 65536 < {NR} and start_({R}, recover % 65536) <= pos and pos <= end_({R}, recover % 65536))"],
         loops={0: dict(invariant=[
             f"diff == D({R}, i // 3)",
             "index == recover % 65536",
             f"all_(0, i // 3, lambda j: start_({R}, j) <= pos and not (j == index and pos <= end_({R}, j)))",
             f"i // 3 < {NR} ==> start_({R}, i // 3) <= end_({R}, i // 3)",
         ])},
         uses=["start-le-end"], props=P)

contract(F, "StepMap.for_each", {"self": "StepMap", "f": "func"},
         requires=["len(self.ranges) % 3 == 0"],
         ensures=[f"trace == old(trace) + fe_trace({R}, {NR})"],
         modifies=["trace"],
         loops={0: dict(invariant=[
             "0 <= i", "i % 3 == 0", "i <= len(self.ranges)",
             f"diff == D({R}, i // 3)",
             f"trace == old(trace) + fe_trace({R}, i // 3)",
         ], decreases="len(self.ranges) - i")},
         props=P + ["C03"])

contract(F, "StepMap.invert", {"self": "StepMap"}, returns="StepMap",
         ensures=["result.ranges == self.ranges", "result.inverted == (not self.inverted)"], props=P + ["C04"])

# ---------------------------------------------------------------- Mapping
MIRR_OK = "len(or_empty(self.mirror)) % 2 == 0"

contract(F, "Mapping.get_mirror", {"self": "Mapping", "n": "int"}, returns="opt[int]",
         requires=[MIRR_OK],
         ensures=["(result is None) == (first_idx(or_empty(self.mirror), n, 0) < 0)",
                  "result is not None ==> result == mirror_of(or_empty(self.mirror), n)"],
         loops={0: dict(invariant=["first_idx(or_empty(self.mirror), n, 0) == first_idx(or_empty(self.mirror), n, i)"])},
         props=P)

contract(F, "Mapping.set_mirror", {"self": "Mapping", "n": "int", "m": "int"},
         modifies=["self.mirror"],
         ensures=["self.mirror is not None", "or_empty(self.mirror) == or_empty(old(self.mirror)) + [n, m]"],
         props=P)

contract(F, "Mapping.append_map", {"self": "Mapping", "map": "StepMap", "mirrors": "opt[int]"},
         modifies=["self.maps", "self.to", "self.mirror"],
         ensures=["self.maps == old(self.maps) + [map]",
                  "self.to == len(self.maps)",
                  "mirrors is None ==> or_empty(self.mirror) == or_empty(old(self.mirror))",
                  "mirrors is not None ==> or_empty(self.mirror) == or_empty(old(self.mirror)) + [len(old(self.maps)), mirrors]"],
         props=P + ["C04"])

MAPS_WF = "all_(0, len(self.maps), lambda j: wf(self.maps[j].ranges, self.maps[j].inverted))"

contract(F, "Mapping.slice", {"self": "Mapping", "from_": "int", "to": "opt[int]"}, returns="Mapping",
         ensures=["result.maps == self.maps", "or_empty(result.mirror) == or_empty(self.mirror)",
                  "(result.mirror is None) == (self.mirror is None)",
                  "result.from_ == from_", "result.to == (len(self.maps) if to is None else to)"],
         props=P)

contract(F, "Mapping.copy", {"self": "Mapping"}, returns="Mapping",
         ensures=["result.maps == self.maps", "or_empty(result.mirror) == or_empty(self.mirror)",
                  "result.from_ == self.from_", "result.to == self.to"],
         props=P + ["C10"])

contract(F, "Mapping.append_mapping", {"self": "Mapping", "mapping": "Mapping"},
         requires=["mapping != self", "len(or_empty(mapping.mirror)) % 2 == 0"],
         modifies=["self.maps", "self.to", "self.mirror"],
         ensures=["self.maps == old(self.maps) + mapping.maps",
                  "len(mapping.maps) > 0 ==> self.to == len(self.maps)",
                  "len(mapping.maps) == 0 ==> self.to == old(self.to)",
                  "or_empty(self.mirror) == or_empty(old(self.mirror)) + am_mirror(or_empty(mapping.mirror), len(old(self.maps)), len(mapping.maps))"],
         loops={0: dict(invariant=[
             "0 <= i", "i <= len(mapping.maps)",
             "start_size == len(old(self.maps))",
             "self.maps == old(self.maps) + mapping.maps[0:i]",
             "(i > 0 and self.to == len(self.maps)) or (i == 0 and self.to == old(self.to))",
             "or_empty(self.mirror) == or_empty(old(self.mirror)) + am_mirror(or_empty(mapping.mirror), start_size, i)",
             "mapping.maps == old(mapping.maps)", "or_empty(mapping.mirror) == or_empty(old(mapping.mirror))",
         ], decreases="len(mapping.maps) - i")},
         props=P)

# a mirror pair registers a map and (a rebased copy of) its inverse: both have the same number
# of ranges, and the recover encoding holds at most 65536 range indices
MIRR_SHAPE = ("all_(0, len(self.maps), lambda a: all_(0, len(self.maps), lambda b: implies("
              "first_idx(or_empty(self.mirror), a, 0) >= 0 and mirror_of(or_empty(self.mirror), a) == b, "
              "len(self.maps[a].ranges) == len(self.maps[b].ranges))))")
MAPS_SMALL = "all_(0, len(self.maps), lambda j: len(self.maps[j].ranges) // 3 <= 65536)"
MAPPING_OK = ["0 <= self.from_", "self.from_ <= self.to", "self.to <= len(self.maps)", MAPS_WF, MIRR_OK, MIRR_SHAPE, MAPS_SMALL]

contract(F, "Mapping.append_mapping_inverted", {"self": "Mapping", "mapping": "Mapping"},
         requires=["mapping != self", "len(or_empty(mapping.mirror)) % 2 == 0"],
         modifies=["self.maps", "self.to", "self.mirror"],
         ensures=["len(self.maps) == len(old(self.maps)) + len(mapping.maps)",
                  "self.maps[0:len(old(self.maps))] == old(self.maps)",
                  "all_(len(old(self.maps)), len(self.maps), lambda p: self.maps[p].ranges == mapping.maps[len(self.maps) - 1 - p].ranges"
                  " and self.maps[p].inverted == (not mapping.maps[len(self.maps) - 1 - p].inverted))",
                  "len(mapping.maps) > 0 ==> self.to == len(self.maps)",
                  "len(mapping.maps) == 0 ==> self.to == old(self.to)",
                  "or_empty(self.mirror) == or_empty(old(self.mirror)) + ami_mirror(or_empty(mapping.mirror), len(old(self.maps)) + len(mapping.maps), len(mapping.maps), len(mapping.maps))"],
         loops={0: dict(invariant=[
             "-1 <= i", "i < len(mapping.maps)",
             "total_size == len(old(self.maps)) + len(mapping.maps)",
             "len(self.maps) == len(old(self.maps)) + (len(mapping.maps) - 1 - i)",
             "self.maps[0:len(old(self.maps))] == old(self.maps)",
             "all_(len(old(self.maps)), len(self.maps), lambda p: self.maps[p].ranges == mapping.maps[total_size - 1 - p].ranges"
             " and self.maps[p].inverted == (not mapping.maps[total_size - 1 - p].inverted))",
             "(i < len(mapping.maps) - 1 and self.to == len(self.maps)) or (i == len(mapping.maps) - 1 and self.to == old(self.to))",
             "or_empty(self.mirror) == or_empty(old(self.mirror)) + ami_mirror(or_empty(mapping.mirror), total_size, len(mapping.maps), len(mapping.maps) - 1 - i)",
             "mapping.maps == old(mapping.maps)", "or_empty(mapping.mirror) == or_empty(old(mapping.mirror))",
         ], decreases="i + 1")},
         props=P)

contract(F, "Mapping.invert", {"self": "Mapping"}, returns="Mapping",
         requires=["len(or_empty(self.mirror)) % 2 == 0"],
         ensures=["len(result.maps) == len(self.maps)",
                  "all_(0, len(self.maps), lambda j: result.maps[j].ranges == self.maps[len(self.maps) - 1 - j].ranges"
                  " and result.maps[j].inverted == (not self.maps[len(self.maps) - 1 - j].inverted))",
                  "result.from_ == 0", "result.to == len(result.maps)",
                  "or_empty(result.mirror) == ami_mirror(or_empty(self.mirror), len(self.maps), len(self.maps), len(self.maps))",
                  "self.maps == old(self.maps)"],
         props=P + ["C04"])

contract(F, "Mapping._map", {"self": "Mapping", "pos": "int", "assoc": "int", "simple": "bool"},
         requires=MAPPING_OK,
         cases=[dict(when="simple", returns="int",
                     ensures=["result == mcompose(self.maps, or_empty(self.mirror), self.from_, self.to, pos, assoc)"]),
                dict(when="not simple", returns="MapResult",
                     ensures=["result.pos == mcompose(self.maps, or_empty(self.mirror), self.from_, self.to, pos, assoc)",
                              "result.recover is None", "0 <= result.del_info", "result.del_info < 16"])],
         loops={0: dict(invariant=[
             "self.from_ <= i",
             "mcompose(self.maps, or_empty(self.mirror), self.from_, self.to, old(pos), assoc) == mcompose(self.maps, or_empty(self.mirror), i, self.to, pos, assoc)",
             "0 <= del_info", "del_info < 16",
         ], decreases="self.to - i")},
         props=P)

contract(F, "Mapping.map_result", {"self": "Mapping", "pos": "int", "assoc": "int"}, returns="MapResult",
         requires=MAPPING_OK,
         ensures=["result.pos == mcompose(self.maps, or_empty(self.mirror), self.from_, self.to, pos, assoc)",
                  "result.recover is None", "0 <= result.del_info", "result.del_info < 16"],
         props=P)

contract(F, "Mapping.map", {"self": "Mapping", "pos": "int", "assoc": "int"}, returns="int",
         requires=MAPPING_OK,
         ensures=["len(or_empty(self.mirror)) == 0 ==> result == compose(self.maps, self.from_, self.to, pos, assoc)",
                  "len(or_empty(self.mirror)) > 0 ==> result == mcompose(self.maps, or_empty(self.mirror), self.from_, self.to, pos, assoc)"],
         loops={0: dict(invariant=["pos == compose(self.maps, self.from_, i, old(pos), assoc)", "i <= self.to or i == self.from_"])},
         props=P)
