"""Contracts for the step classes and Transform bookkeeping (C03, C04, C16, C17)."""
import os

from pyvc.api import abstract, axiom, cls, contract, lemma, spec_file

from . import classes  # noqa: F401
from . import model_mark  # noqa: F401  (Mark.eq)
from . import transform_map  # noqa: F401  (StepMap / Mapping / MapResult classes and contracts)

FST = "prosemirror/transform/step.py"
FRS = "prosemirror/transform/replace_step.py"
FMS = "prosemirror/transform/mark_step.py"
FAS = "prosemirror/transform/attr_step.py"
FDS = "prosemirror/transform/doc_attr_step.py"
FTR = "prosemirror/transform/transform.py"
FMAP = "prosemirror/transform/map.py"
FR = "prosemirror/model/replace.py"
FF = "prosemirror/model/fragment.py"

cls("Mappable", FMAP, {})
cls("Step", FST, {})
cls("StepResult", FST, {"doc": "opt[Node]", "failed": "opt[str]"})
cls("ReplaceStep", FRS, {"from_": "int", "to": "int", "slice": "Slice", "structure": "bool"}, bases=["Step"])
cls("ReplaceAroundStep", FRS, {"from_": "int", "to": "int", "gap_from": "int", "gap_to": "int", "slice": "Slice", "insert": "int", "structure": "bool"}, bases=["Step"])
cls("AddMarkStep", FMS, {"from_": "int", "to": "int", "mark": "Mark"}, bases=["Step"])
cls("RemoveMarkStep", FMS, {"from_": "int", "to": "int", "mark": "Mark"}, bases=["Step"])
cls("AddNodeMarkStep", FMS, {"pos": "int", "mark": "Mark"}, bases=["Step"])
cls("RemoveNodeMarkStep", FMS, {"pos": "int", "mark": "Mark"}, bases=["Step"])
cls("AttrStep", FAS, {"pos": "int", "attr": "str", "value": "val"}, bases=["Step"])
cls("DocAttrStep", FDS, {"attr": "str", "value": "val"}, bases=["Step"])

# ---- what any Mappable answers (StepMap and Mapping both implement it; their own contracts in
# transform_map.py say what these are for a step map / a mapping)
spec_file(os.path.join(os.path.dirname(os.path.dirname(os.path.abspath(__file__))), "spec", "stepspec.py"))
abstract("mpos", ["Mappable", "int", "int"], "int")
abstract("mdelinfo", ["Mappable", "int", "int"], "int")
contract(FMAP, "Mappable.map", {"self": "Mappable", "pos": "int", "assoc": "int"}, returns="int",
         ensures=["result == mpos(self, pos, assoc)"], trusted="abstract method: the answer of whatever Mappable is passed", props=["C17"])
contract(FMAP, "Mappable.map_result", {"self": "Mappable", "pos": "int", "assoc": "int"}, returns="MapResult",
         ensures=["result.pos == mpos(self, pos, assoc)", "result.del_info == mdelinfo(self, pos, assoc)", "0 <= result.del_info", "result.del_info < 16"],
         trusted="abstract method: the answer of whatever Mappable is passed", props=["C17"])

PS = ["C03", "C04", "C16", "C17"]

contract(FR, "Slice.size", {"self": "Slice"}, returns="int", is_property=True,
         ensures=["result == self.content.size - self.open_start - self.open_end"], props=PS + ["C02"])

DEL = "band(mdelinfo(mapping, {p}, {a}), 8) > 0"
DEL_AFTER = "band(mdelinfo(mapping, {p}, {a}), 6) > 0"

# ---- ReplaceStep
contract(FRS, "ReplaceStep.get_map", {"self": "ReplaceStep"}, returns="StepMap",
         ensures=["result.ranges == [self.from_, self.to - self.from_, self.slice.content.size - self.slice.open_start - self.slice.open_end]",
                  "not result.inverted"], props=["C03", "C04"])
contract(FRS, "ReplaceStep.map", {"self": "ReplaceStep", "mapping": "Mappable"}, returns="opt[ReplaceStep]",
         ensures=[f"(result is None) == (({DEL.format(p='self.from_', a=1)}) and ({DEL.format(p='self.to', a=-1)}))",
                  "result is not None ==> result.from_ == mpos(mapping, self.from_, 1)",
                  "result is not None ==> result.to == max(mpos(mapping, self.from_, 1), mpos(mapping, self.to, -1))",
                  "result is not None ==> result.slice == self.slice",
                  "result is not None ==> not result.structure"], props=["C17"])
contract(FF, "Fragment.append", {"self": "Fragment", "other": "Fragment"}, returns="Fragment",
         ensures=["result.size == self.size + other.size"],
         trusted="verified separately in model_core when available; here only the size equation is used", props=["C16"])
contract(FRS, "ReplaceStep.merge", {"self": "ReplaceStep", "other": "Step"}, returns="opt[ReplaceStep]",
         ensures=[
             # merging happens only for plain (non-structure) replace steps that touch
             "result is not None ==> isinstance_ReplaceStep(other) and not self.structure and not narrow(other, 'ReplaceStep').structure",
             "result is not None ==> (self.from_ + (self.slice.content.size - self.slice.open_start - self.slice.open_end) == narrow(other, 'ReplaceStep').from_ and self.slice.open_end == 0 and narrow(other, 'ReplaceStep').slice.open_start == 0)"
             " or (narrow(other, 'ReplaceStep').to == self.from_ and self.slice.open_start == 0 and narrow(other, 'ReplaceStep').slice.open_end == 0)",
             # the merged step replaces the union of the two ranges (in the first document's coordinates) ...
             "result is not None and self.from_ + (self.slice.content.size - self.slice.open_start - self.slice.open_end) == narrow(other, 'ReplaceStep').from_ and self.slice.open_end == 0 and narrow(other, 'ReplaceStep').slice.open_start == 0"
             " ==> result.from_ == self.from_ and result.to == self.to + (narrow(other, 'ReplaceStep').to - narrow(other, 'ReplaceStep').from_)",
             "result is not None and not (self.from_ + (self.slice.content.size - self.slice.open_start - self.slice.open_end) == narrow(other, 'ReplaceStep').from_ and self.slice.open_end == 0 and narrow(other, 'ReplaceStep').slice.open_start == 0)"
             " ==> result.from_ == narrow(other, 'ReplaceStep').from_ and result.to == self.to",
             # ... and inserts as much as the two steps together
             "result is not None ==> result.slice.content.size - result.slice.open_start - result.slice.open_end"
             " == (self.slice.content.size - self.slice.open_start - self.slice.open_end) + (narrow(other, 'ReplaceStep').slice.content.size - narrow(other, 'ReplaceStep').slice.open_start - narrow(other, 'ReplaceStep').slice.open_end)",
             "result is not None ==> not result.structure",
         ], props=["C16"])

# ---- ReplaceAroundStep
contract(FRS, "ReplaceAroundStep.get_map", {"self": "ReplaceAroundStep"}, returns="StepMap",
         ensures=["result.ranges == [self.from_, self.gap_from - self.from_, self.insert, self.gap_to, self.to - self.gap_to,"
                  " self.slice.content.size - self.slice.open_start - self.slice.open_end - self.insert]", "not result.inverted"], props=["C03", "C04"])
contract(FRS, "ReplaceAroundStep.map", {"self": "ReplaceAroundStep", "mapping": "Mappable"}, returns="opt[ReplaceAroundStep]",
         ensures=[f"(result is None) == ((({DEL.format(p='self.from_', a=1)}) and ({DEL.format(p='self.to', a=-1)}))"
                  " or mpos(mapping, self.gap_from, -1) < mpos(mapping, self.from_, 1) or mpos(mapping, self.gap_to, 1) > mpos(mapping, self.to, -1))",
                  "result is not None ==> result.from_ == mpos(mapping, self.from_, 1) and result.to == mpos(mapping, self.to, -1)"
                  " and result.gap_from == mpos(mapping, self.gap_from, -1) and result.gap_to == mpos(mapping, self.gap_to, 1)",
                  "result is not None ==> result.slice == self.slice and result.insert == self.insert and result.structure == self.structure"],
         props=["C17"])

# ---- mark steps
for C in ("AddMarkStep", "RemoveMarkStep"):
    contract(FMS, f"{C}.map", {"self": C, "mapping": "Mappable"}, returns=f"opt[{C}]",
             ensures=[f"(result is None) == ((({DEL.format(p='self.from_', a=1)}) and ({DEL.format(p='self.to', a=-1)})) or mpos(mapping, self.from_, 1) > mpos(mapping, self.to, -1))",
                      "result is not None ==> result.from_ == mpos(mapping, self.from_, 1) and result.to == mpos(mapping, self.to, -1) and result.mark == self.mark"],
             props=["C17", "C13"])
    contract(FMS, f"{C}.merge", {"self": C, "other": "Step"}, returns=f"opt[{C}]",
             ensures=[f"result is not None ==> isinstance_{C}(other) and meq(narrow(other, '{C}').mark, self.mark) and self.from_ <= narrow(other, '{C}').to and self.to >= narrow(other, '{C}').from_",
                      f"result is not None ==> result.from_ == min(self.from_, narrow(other, '{C}').from_) and result.to == max(self.to, narrow(other, '{C}').to) and result.mark == self.mark",
                      f"(isinstance_{C}(other) and meq(narrow(other, '{C}').mark, self.mark) and self.from_ <= narrow(other, '{C}').to and self.to >= narrow(other, '{C}').from_) ==> result is not None"],
             props=["C16"])
    contract(FMS, f"{C}.invert", {"self": C, "doc": "opt[Node]"}, returns="RemoveMarkStep" if C == "AddMarkStep" else "AddMarkStep",
             ensures=["result.from_ == self.from_ and result.to == self.to and result.mark == self.mark"], props=["C04"])
for C in ("AddNodeMarkStep", "RemoveNodeMarkStep"):
    contract(FMS, f"{C}.map", {"self": C, "mapping": "Mappable"}, returns=f"opt[{C}]",
             ensures=[f"(result is None) == ({DEL_AFTER.format(p='self.pos', a=1)})",
                      "result is not None ==> result.pos == mpos(mapping, self.pos, 1) and result.mark == self.mark"], props=["C17"])
contract(FAS, "AttrStep.map", {"self": "AttrStep", "mapping": "Mappable"}, returns="opt[AttrStep]",
         ensures=[f"(result is None) == ({DEL_AFTER.format(p='self.pos', a=1)})",
                  "result is not None ==> result.pos == mpos(mapping, self.pos, 1) and result.attr == self.attr and result.value == self.value"], props=["C17"])
contract(FAS, "AttrStep.get_map", {"self": "AttrStep"}, returns="StepMap", ensures=["len(result.ranges) == 0"], props=["C03"])
contract(FDS, "DocAttrStep.get_map", {"self": "DocAttrStep"}, returns="StepMap", ensures=["len(result.ranges) == 0"], props=["C03"])
contract(FST, "Step.get_map", {"self": "Step"}, returns="StepMap", ensures=["len(result.ranges) == 0"], props=["C03"])
contract(FDS, "DocAttrStep.map", {"self": "DocAttrStep", "mapping": "Mappable"}, returns="DocAttrStep", ensures=["result == self"], props=["C17"])

# ---- StepResult
contract(FST, "StepResult.ok", {"doc": "Node"}, returns="StepResult", ensures=["result.doc == doc", "result.failed is None"], props=["C01", "C04"])
contract(FST, "StepResult.fail", {"message": "str"}, returns="StepResult", ensures=["result.doc is None", "result.failed is not None"], props=["C01", "C04"])

axiom("slice-empty", {}, "Slice.empty.content.size == 0 and Slice.empty.open_start == 0 and Slice.empty.open_end == 0",
      "module-level singleton Slice.empty = Slice(Fragment.empty, 0, 0); nothing mutates it (C10 frame obligations)")
axiom("stepmap-empty", {}, "len(StepMap.empty.ranges) == 0 and not StepMap.empty.inverted",
      "module-level singleton StepMap.empty = StepMap([]); nothing mutates it (C10 frame obligations)")


def _register_class_attrs():
    import z3

    from pyvc.kinds import Obj, VObj
    from pyvc.symexec import CLASS_ATTRS

    e = z3.Const("StepMap.empty", Obj)
    CLASS_ATTRS["StepMap.empty"] = lambda: VObj("StepMap", e)
    e2 = z3.Const("Slice.empty", Obj)
    CLASS_ATTRS["Slice.empty"] = lambda: VObj("Slice", e2)


try:
    _register_class_attrs()
except ImportError:
    pass

# ---------------------------------------------------------------- Transform bookkeeping (C04)
cls("Transform", FTR, {"doc": "Node", "steps": "list[Step]", "docs": "list[Node]", "mapping": "Mapping"}, mutable={"doc", "steps", "docs"})

contract(FST, "Step.apply", {"self": "Step", "_doc": "Node"}, returns="StepResult", virtual=True,
         trusted="abstract method; every concrete apply returns a StepResult (their effect is the subject of C01-C03, bounded)", props=["C04"])
# Step.get_map is overridden by the replace steps: callers on a plain Step get no promise
from pyvc import api as _api  # noqa: E402

_api.CONTRACTS["Step.get_map"].virtual = True

ALIGNED = "len(self.steps) == len(self.docs) and len(self.steps) == len(self.mapping.maps)"
GROWN = ("len(self.steps) == len(old(self.steps)) + 1 and len(self.docs) == len(old(self.docs)) + 1"
         " and len(self.mapping.maps) == len(old(self.mapping.maps)) + 1")
SAME = ("self.steps == old(self.steps) and self.docs == old(self.docs) and self.mapping.maps == old(self.mapping.maps)"
        " and self.doc == old(self.doc)")

contract(FTR, "Transform.add_step", {"self": "Transform", "step": "Step", "doc": "Node"},
         modifies=["self.docs", "self.steps", "self.doc", "self.mapping.maps", "self.mapping.to", "self.mapping.mirror"],
         ensures=["self.docs == old(self.docs) + [old(self.doc)]", "self.steps == old(self.steps) + [step]", "self.doc == doc",
                  "len(self.mapping.maps) == len(old(self.mapping.maps)) + 1",
                  "self.mapping.maps[0:len(old(self.mapping.maps))] == old(self.mapping.maps)",
                  "or_empty(self.mapping.mirror) == or_empty(old(self.mapping.mirror))"],
         props=["C04", "C03"])
contract(FTR, "Transform.maybe_step", {"self": "Transform", "step": "Step"}, returns="StepResult",
         requires=[ALIGNED],
         modifies=["self.docs", "self.steps", "self.doc", "self.mapping.maps", "self.mapping.to", "self.mapping.mirror"],
         ensures=[ALIGNED,
                  # a rejected step leaves everything untouched; an accepted one is recorded exactly once
                  f"(result.failed is not None and len(result.failed) > 0) or result.doc is None ==> {SAME}",
                  f"not ((result.failed is not None and len(result.failed) > 0) or result.doc is None) ==> {GROWN} and self.doc == result.doc"
                  " and self.steps[len(self.steps) - 1] == step and self.docs[len(self.docs) - 1] == old(self.doc)"],
         props=["C04"])
contract(FTR, "Transform.step", {"self": "Transform", "object": "Step"}, returns="Transform",
         requires=[ALIGNED],
         modifies=["self.docs", "self.steps", "self.doc", "self.mapping.maps", "self.mapping.to", "self.mapping.mirror"],
         cases=[dict(when="True", returns="Transform", ensures=[ALIGNED, "result == self"])],
         may_raise={"TransformError": "True"},  # raised when the step fails (nothing is recorded then: maybe_step's contract)
         props=["C04"])
contract(FTR, "Transform.doc_changed", {"self": "Transform"}, returns="bool", ensures=["result == (len(self.steps) > 0)"], props=["C04"])
contract(FTR, "Transform.before", {"self": "Transform"}, returns="Node", is_property=True,
         ensures=["len(self.docs) > 0 ==> result == self.docs[0]", "len(self.docs) == 0 ==> result == self.doc"], props=["C04"])


# ---------------------------------------------------------------- inverse maps (C04)
contract("prosemirror/model/node.py", "Node.slice", {"self": "Node", "from_": "int", "to": "opt[int]", "include_parents": "bool"}, returns="Slice",
         requires=["0 <= from_", "to is None or (from_ <= to and to <= self.content.size)"],
         ensures=["result.content.size - result.open_start - result.open_end == (self.content.size if to is None else to) - from_"],
         trusted="C02 (bounded): a slice holds exactly the tokens of its range", props=["C04"])
contract(FRS, "ReplaceStep.invert", {"self": "ReplaceStep", "doc": "Node"}, returns="ReplaceStep",
         requires=["0 <= self.from_", "self.from_ <= self.to", "self.to <= doc.content.size"],
         ensures=["result.from_ == self.from_",
                  "result.to == self.from_ + (self.slice.content.size - self.slice.open_start - self.slice.open_end)",
                  "result.slice.content.size - result.slice.open_start - result.slice.open_end == self.to - self.from_",
                  "not result.structure"],
         props=["C04"])

R1 = "[f, o, n]"
R1I = "[f, n, o]"
lemma("invert-map-replace", {"f": "int", "o": "int", "n": "int", "pos": "int", "assoc": "int"},
      requires=["f >= 0", "o >= 0", "n >= 0"],
      # the inverted step's map [f, n, o] maps every position like the inverted map of [f, o, n]
      ensures=[f"rule({R1I}, False, pos, assoc) == rule({R1}, True, pos, assoc)",
               f"recover_of({R1I}, False, pos, assoc) == recover_of({R1}, True, pos, assoc)"],
      terms=[f"rule_from({R1I}, False, pos, assoc, 1)", f"rule_from({R1}, True, pos, assoc, 1)", f"D({R1I}, False, 1)", f"D({R1}, True, 1)",
             f"find_m({R1I}, False, pos, 1)", f"find_m({R1}, True, pos, 1)", f"find_m({R1I}, False, pos, 0)", f"find_m({R1}, True, pos, 0)"],
      props=["C04", "C08"])

R2 = "[f, o1, n1, g, o2, n2]"
R2I = "[f, n1, o1, g + n1 - o1, n2, o2]"
lemma("invert-map-around", {"f": "int", "o1": "int", "n1": "int", "g": "int", "o2": "int", "n2": "int", "pos": "int", "assoc": "int"},
      requires=["f >= 0", "o1 >= 0", "n1 >= 0", "o2 >= 0", "n2 >= 0", "g >= f + o1"],
      # ReplaceAroundStep.invert's map: ranges in the new document's coordinates with old/new sizes swapped
      ensures=[f"rule({R2I}, False, pos, assoc) == rule({R2}, True, pos, assoc)"],
      terms=[f"rule_from({R2I}, False, pos, assoc, 1)", f"rule_from({R2}, True, pos, assoc, 1)", f"rule_from({R2I}, False, pos, assoc, 2)", f"rule_from({R2}, True, pos, assoc, 2)",
             f"D({R2I}, False, 1)", f"D({R2}, True, 1)", f"D({R2I}, False, 2)", f"D({R2}, True, 2)"],
      props=["C04", "C08"])
