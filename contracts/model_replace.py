"""Contracts for the replace entry points and the replace steps' apply flow (C01)."""
import os

from pyvc.api import abstract, axiom, cls, contract, lemma, spec_file

from . import classes  # noqa: F401
from . import model_content  # noqa: F401
from . import model_core  # noqa: F401
from . import model_pos  # noqa: F401
from . import transform_steps  # noqa: F401
from .classes import FN, FR
from .model_pos import RSHAPE

FRS = "prosemirror/transform/replace_step.py"
FST = "prosemirror/transform/step.py"
spec_file(os.path.join(os.path.dirname(os.path.dirname(os.path.abspath(__file__))), "spec", "replacespec.py"))
P = ["C01"]
abstract("cbetween", ["Node", "int", "int"], "bool")
abstract("sl_os", ["Node", "int", "int"], "int")
abstract("sl_oe", ["Node", "int", "int"], "int")

# ---- Node.copy: the rebuilt node keeps type, attributes and marks
contract(FN, "Node.copy", {"self": "Node", "content": "opt[Fragment]"}, returns="Node",
         body_requires=["not self.type.is_text"],  # a text node is never rebuilt through copy (its content is its text)
         requires=["content is not None"],
         ensures=["result.type == self.type", "result.attrs == self.attrs", "result.content == content", "result.marks == self.marks"],
         props=P)

# ---- close: the only place where replace builds a node around new content validates that content
contract(FR, "close", {"node": "Node", "content": "Fragment"}, returns="Node",
         raises={"ReplaceError": "not valid_seq(node.type, content.content)"},
         ensures=["result.type == node.type", "result.content == content", "result.marks == node.marks", "result.attrs == node.attrs",
                  "valid_seq(result.type, result.content.content)"],
         props=P + ["C02"])
contract(FR, "check_join", {"main": "Node", "sub": "Node"},
         raises={"ReplaceError": "not (sub.type == main.type or compat_idx(sub.type.content_match.next, main.type.content_match.next, 0) >= 0)"},
         props=P + ["C02"])
contract(FR, "joinable", {"before": "ResolvedPos", "after": "ResolvedPos", "depth": "int"}, returns="Node",
         requires=["0 <= depth", "depth <= before.depth", "depth <= after.depth"],
         raises={"ReplaceError": "not (rp_node(after, depth).type == rp_node(before, depth).type"
                                 " or compat_idx(rp_node(after, depth).type.content_match.next, rp_node(before, depth).type.content_match.next, 0) >= 0)"},
         ensures=["result == rp_node(before, depth)"], props=P + ["C02"])

# ---- replace(): the two open-depth guards, then the recursive rebuild (bounded: C02 token oracle)
SC = "slice.content.content"
contract(FR, "open_depths_fit", {"slice": "Slice"}, returns="bool", ensures=["result == odfit(slice)"],
         loops={0: dict(invariant=[
                    "slice.open_start >= 0", "slice.open_end >= 0",
                    f"node is None ==> fits_first({SC}, slice.open_start) == (slice.open_start - _ <= 0)",
                    f"node is not None ==> fits_first({SC}, slice.open_start) == (slice.open_start - _ <= 0 or (not leaf_t(node.type) and fits_first(node.content.content, slice.open_start - _ - 1)))"]),
                1: dict(invariant=[
                    "slice.open_start >= 0", "slice.open_end >= 0", f"fits_first({SC}, slice.open_start)",
                    f"node is None ==> fits_last({SC}, slice.open_end) == (slice.open_end - _ <= 0)",
                    f"node is not None ==> fits_last({SC}, slice.open_end) == (slice.open_end - _ <= 0 or (not leaf_t(node.type) and fits_last(node.content.content, slice.open_end - _ - 1)))"])},
         locals={"node": "opt[Node]"}, props=P + ["C02"])
GUARD = "from_.pos > to.pos or not odfit(slice) or slice.open_start > from_.depth or from_.depth - slice.open_start != to.depth - slice.open_end"
contract(FR, "replace", {"from_": "ResolvedPos", "to": "ResolvedPos", "slice": "Slice"}, returns="Node",
         raises={"ReplaceError": GUARD}, may_raise={"ReplaceError": "True"},
         props=P + ["C02"])
OUT = "pos < 0 or pos > {d}.content.size"
contract(FN, "Node.resolve", {"self": "Node", "pos": "int"}, returns="ResolvedPos",
         raises={"ValueError": OUT.format(d="self")}, ensures=["result.pos == pos", "rp_node(result, 0) == self"],
         defines=[c.format(d="self") for c in RSHAPE], props=P + ["C09"])
contract("prosemirror/model/resolvedpos.py", "ResolvedPos.resolve_cached", {"doc": "Node", "pos": "int"}, returns="ResolvedPos",
         raises={"ValueError": OUT.format(d="doc")}, ensures=["result.pos == pos", "rp_node(result, 0) == doc"],
         defines=[c.format(d="doc") for c in RSHAPE], props=P + ["C09"])
# both positions lie in the same parent node (same depth, same index at every level above)
FLAT = "rdepth({d}, {a}) == rdepth({d}, {b}) and all_(0, rdepth({d}, {a}), lambda k: ridx({d}, {a}, k) == ridx({d}, {b}, k))"
CLOSED = "{s}.open_start == 0 and {s}.open_end == 0"
RANGE = "from_ < 0 or from_ > {d}.content.size or to < 0 or to > {d}.content.size"
PAYLOAD = "implies(slice.open_start == 0 and slice.open_end == 0, fvalid(slice.content.content))"
contract(FN, "Node.replace", {"self": "Node", "from_": "int", "to": "int", "slice": "Slice"}, returns="Node",
         may_raise={"ValueError": "True", "ReplaceError": "True"},
         # out-of-range positions are reported, never indexed with; a deeply valid document stays deeply valid
         ensures=["0 <= from_ and from_ <= self.content.size and 0 <= to and to <= self.content.size",
                  f"dvalid(self) and not self.type.is_text and {PAYLOAD} and prep_valid(slice, self, from_) ==> dvalid(result)", "result.type == self.type",
                  "slice.content.size == 0 ==> result.content.size == self.content.size - (to - from_)",
                  f"{CLOSED.format(s='slice')} and {FLAT.format(d='self', a='from_', b='to')} ==> result.content.size == self.content.size - (to - from_) + slice.content.size"],
         props=P + ["C02"])

# ---- step results
contract(FST, "StepResult.from_replace", {"doc": "Node", "from_": "int", "to": "int", "slice": "Slice"}, returns="StepResult",
         # a ReplaceError becomes a failed result; only an out-of-range position may raise (ValueError)
         may_raise={"ValueError": "True"},
         ensures=["(result.failed is None) == (result.doc is not None)",
                  f"dvalid(doc) and not doc.type.is_text and {PAYLOAD} and prep_valid(slice, doc, from_) and result.doc is not None ==> dvalid(result.doc)",
                  "slice.content.size == 0 and result.doc is not None ==> result.doc.content.size == doc.content.size - (to - from_)",
                  f"{CLOSED.format(s='slice')} and {FLAT.format(d='doc', a='from_', b='to')} and result.doc is not None"
                  " ==> result.doc.content.size == doc.content.size - (to - from_) + slice.content.size"],
         props=P)

contract(FRS, "content_between", {"doc": "Node", "from_": "int", "to": "int"}, returns="bool",
         raises={"ValueError": "from_ < 0 or from_ > doc.content.size"},
         defines=["result == cbetween(doc, from_, to)"],
         loops={0: dict(invariant=["0 <= depth", "depth <= from__.depth"], decreases="depth"),
                1: dict(invariant=[], decreases="dist")},
         locals={"next": "opt[Node]"},
         props=P)

from pyvc import api as _api  # noqa: E402

_ns = _api.CONTRACTS["Node.slice"]
# (the names stand for the default call; with include_parents the open depths are counted from the root instead --
# found by evaluating the naming clauses natively, which the first version of the native phase did not do)
_ns.defines = ["not include_parents ==> result.open_start == sl_os(self, from_, self.content.size if to is None else to)",
               "not include_parents ==> result.open_end == sl_oe(self, from_, self.content.size if to is None else to)"]
_ns.may_raise = {"ValueError": "from_ < 0 or from_ > self.content.size or (to is not None and (to < 0 or to > self.content.size))"}
# total: a step decoded from a peer's JSON may ask for any range; the size equation is promised for well-formed ranges only
_ns.requires = []
_ns.cases[0]["ensures"] = ["(0 <= from_ and (to is None or (from_ <= to and to <= self.content.size))) ==> "
                           "result.content.size - result.open_start - result.open_end == (self.content.size if to is None else to) - from_"]

from . import model_diff  # noqa: E402,F401  (wt / tree-wf: documents are finite trees)

FF = "prosemirror/model/fragment.py"

lemma("bidx-unique", {"c": "list[Node]", "pos": "int", "idx": "int", "k": "int"},
      requires=["0 <= k", "k <= idx", "idx <= len(c)", "pre(c, idx) <= pos",
                "pre(c, idx) == pos or (idx < len(c) and pos < pre(c, idx + 1))"],
      ensures=["bidx(c, pos, k) == idx"], induct="k", step=1, decreases="idx - k",
      calls=[("pre-step", ["c", "k + 1", "idx"]), ("pre-step", ["c", "idx", "idx + 1"])],
      terms=["pre(c, idx + 1)", "pre(c, k + 1)"], props=P)

lemma("ins-unfold", {"c": "list[Node]", "d": "int", "i": "list[Node]", "pt": "NodeType", "os_": "int", "oe": "int"},
      ensures=["ins_chk(c, d, i, pt, os_, oe) == (replace_ok(pt, c, bidx(c, d, 0), bidx(c, d, 0), i, 0, len(i)) if at_boundary(c, d) else ins_deeper(c, d, i, os_, oe))",
               "ins_nochk(c, d, i, os_, oe) == (at_boundary(c, d) or ins_deeper(c, d, i, os_, oe))"], props=P)

C_ = "content.content"
contract(FR, "insert_into", {"content": "Fragment", "dist": "int", "insert": "Fragment", "parent": "opt[Node]", "open_start": "int", "open_end": "int"},
         returns="opt[Fragment]",
         requires=["parent is not None ==> parent.content == content"],
         may_raise={"ValueError": "True"},
         # None exactly when the landing node is complete and does not accept the gap content there
         ensures=[f"(result is None) == (not (ins_chk({C_}, dist, insert.content, parent.type, open_start, open_end) if parent is not None"
                  f" else ins_nochk({C_}, dist, insert.content, open_start, open_end)))"],
         decreases="wt(content)",
         calls_func={"insert_into": [("tree-wf", ["content", "index"])]},
         calls=[("bidx-unique", [C_, "dist", "index", "0"]), ("ins-unfold", [C_, "dist", "insert.content", "parent.type", "open_start", "open_end"])],
         locals={"inner": "opt[Fragment]", "child": "opt[Node]"},
         props=P)

STRUCT_RS = "self.structure and cbetween(doc, self.from_, self.to)"
contract(FRS, "ReplaceStep.apply", {"self": "ReplaceStep", "doc": "Node"}, returns="StepResult",
         may_raise={"ValueError": "True"},
         ensures=["(result.failed is None) == (result.doc is not None)",
                  # a structure step never overwrites content
                  f"({STRUCT_RS}) ==> result.failed is not None",
                  # C01 for replace steps: from a deeply valid document and a payload-valid slice, a step that does not fail yields a deeply valid document
                  "dvalid(doc) and not doc.type.is_text and implies(self.slice.open_start == 0 and self.slice.open_end == 0, fvalid(self.slice.content.content))"
                  " and prep_valid(self.slice, doc, self.from_) and result.doc is not None ==> dvalid(result.doc)",
                  # C03 for deletions: the document shrinks by exactly what the step's map [from, to - from, 0] says
                  "self.slice.content.size == 0 and result.doc is not None ==> result.doc.content.size == doc.content.size - (self.to - self.from_)",
                  # C03 for a closed slice put between two positions of one parent: the document changes by exactly what the map
                  # [from, to - from, slice.size] says
                  f"{CLOSED.format(s='self.slice')} and {FLAT.format(d='doc', a='self.from_', b='self.to')} and result.doc is not None"
                  " ==> result.doc.content.size == doc.content.size - (self.to - self.from_) + self.slice.content.size"],
         props=P)
contract(FRS, "ReplaceAroundStep.apply", {"self": "ReplaceAroundStep", "doc": "Node"}, returns="StepResult",
         may_raise={"ValueError": "True"},
         ensures=["(result.failed is None) == (result.doc is not None)",
                  "(self.structure and (cbetween(doc, self.from_, self.gap_from) or cbetween(doc, self.gap_to, self.to))) ==> result.failed is not None",
                  # the gap must be a flat range: open on neither side
                  "(sl_os(doc, self.gap_from, self.gap_to) != 0 or sl_oe(doc, self.gap_from, self.gap_to) != 0) ==> result.failed is not None"],
         props=P + ["C03"])

contract(FR, "Slice.insert_at", {"self": "Slice", "pos": "int", "fragment": "Fragment"}, returns="opt[Slice]",
         may_raise={"ValueError": "True"},
         ensures=["result is not None ==> result.open_start == self.open_start and result.open_end == self.open_end",
                  "(result is None) == (not ins_nochk(self.content.content, pos + self.open_start, fragment.content, self.open_start, self.open_end))"],
         props=P)

# C02's deductive part also covers the join / validation points of replace
for _k in ("NodeType.compatible_content", "NodeType.valid_content", "ContentMatch.compatible"):
    if "C02" not in _api.CONTRACTS[_k].props:
        _api.CONTRACTS[_k].props.append("C02")


# =====================================================================================================
# deep validity of the deletion path of replace (two-way rebuild): every node of the result is valid
# =====================================================================================================
FP_ = "prosemirror/model/resolvedpos.py"
cls("TextNode", FN, {}, bases=["Node"])
contract(FN, "TextNode.with_text", {"self": "TextNode", "text": "str"}, returns="TextNode",
         trusted="TextNode constructor (text nodes are built only here and in Schema.text): same type, attributes and marks", 
         ensures=["result.type == self.type", "result.marks == self.marks", "result.attrs == self.attrs", "result.text == text"], props=P)
contract(FN, "Node.cut", {"self": "Node", "from_": "int", "to": "opt[int]"}, returns="Node", virtual=True,
         virtual_ensures=["self.type.is_text ==> result.type == self.type",
                          # UTF-16 cut of a text node: the units from_ .. to (A7, trusted)
                          "self.type.is_text and 0 <= from_ and (to is None or (from_ <= to and to <= nsize(self))) ==> nsize(result) == (nsize(self) if to is None else to) - from_"],
         trusted="dynamic dispatch: for a text node this is TextNode.cut (encode / slice / decode, A7), which returns a text node of the same type; for other nodes nothing is promised here",
         props=P)
contract(FP_, "ResolvedPos.node_after", {"self": "ResolvedPos"}, returns="opt[Node]", is_property=True,
         ensures=["(result is None) == (rp_index(self, self.depth) == len(rp_node(self, self.depth).content.content))",
                  "result is not None and rp_toff(self) == 0 ==> result == rp_node(self, self.depth).content.content[rp_index(self, self.depth)]",
                  "result is not None and rp_toff(self) != 0 ==> result.type.is_text and dvalid(result)",
                  "result is not None and rp_toff(self) != 0 ==> nsize(result) == nsize(rp_node(self, self.depth).content.content[rp_index(self, self.depth)]) - rp_toff(self)"], props=P + ["C09"])
contract(FP_, "ResolvedPos.node_before", {"self": "ResolvedPos"}, returns="opt[Node]", is_property=True,
         ensures=["rp_toff(self) != 0 ==> result is not None and result.type.is_text and dvalid(result) and nsize(result) == rp_toff(self)",
                  "rp_toff(self) == 0 ==> (result is None) == (rp_index(self, self.depth) == 0)",
                  "rp_toff(self) == 0 and result is not None ==> result == rp_node(self, self.depth).content.content[rp_index(self, self.depth) - 1]"], props=P + ["C09"])

lemma("dvalid-text", {"n": "Node"}, requires=["n.type.is_text"], ensures=["dvalid(n)"], props=P + ["C02"])
lemma("dvalid-kids", {"n": "Node", "k": "int"}, requires=["dvalid(n)", "not n.type.is_text", "0 <= k", "k < len(n.content.content)"],
      ensures=["dvalid(n.content.content[k])", "valid_seq(n.type, n.content.content)"], terms=["fvalid(n.content.content)"], props=P + ["C02"])
lemma("dvalid-intro", {"n": "Node"}, requires=["not n.type.is_text", "valid_seq(n.type, n.content.content)", "fvalid(n.content.content)"],
      ensures=["dvalid(n)"], props=P + ["C02"])

lemma("fvalid-update", {"c": "list[Node]", "u": "list[Node]", "x": "Node", "i": "int"},
      requires=["fvalid(c)", "dvalid(x)", "0 <= i", "i < len(c)", "len(u) == len(c)", "u[i] == x", "all_(0, len(c), lambda j: implies(j != i, u[j] == c[j]))"],
      ensures=["fvalid(u)"], props=P + ["C02"])
lemma("fvalid-append", {"c": "list[Node]", "u": "list[Node]", "x": "Node"},
      requires=["fvalid(c)", "dvalid(x)", "len(u) == len(c) + 1", "u[len(c)] == x", "all_(0, len(c), lambda j: u[j] == c[j])"],
      ensures=["fvalid(u)"], props=P + ["C02"])

contract(FR, "add_node", {"child": "Node", "target": "list[Node]"}, mutates=["target"],
         ensures=["dvalid(child) and fvalid(old(target)) ==> fvalid(target)", "len(target) >= len(old(target))", "len(target) >= 1",
                  # merging two text nodes adds their lengths (UTF-16 length is additive): the total size grows by the child's size either way
                  "pre(target, len(target)) == pre(old(target), len(old(target))) + nsize(child)"],
         calls=[("dvalid-text", ["target[len(target) - 1]"]), ("fvalid-update", ["old(target)", "target", "target[len(target) - 1]", "len(old(target)) - 1"]),
                ("fvalid-append", ["old(target)", "target", "child"]),
                ("pre-update", ["old(target)", "len(old(target)) - 1", "target[len(target) - 1]", "len(old(target))"]),
                ("pre-concat", ["old(target)", "[child]", "1"]), ("pre-step", ["old(target)", "len(old(target)) - 1", "len(old(target))"]),
                # the merge path without the slice form of the update: the prefix below the last element is unchanged
                # (element-wise), the last step of both sums is unfolded
                ("pre-step", ["target", "len(target) - 1", "len(target)"]),
                ("pre-prefix", ["target", "old(target)", "len(old(target)) - 1"])],
         props=P + ["C02"])

RPC1 = "all_(0, {r}.depth, lambda d: p3b({r}.path, d) < len(p3a({r}.path, d).content.content) and p3a({r}.path, d + 1) == p3a({r}.path, d).content.content[p3b({r}.path, d)])"
RPC2 = "all_(1, {r}.depth + 1, lambda d: not p3a({r}.path, d).type.is_text)"
RPC0 = "all_(0, {r}.depth + 1, lambda d: 0 <= p3b({r}.path, d) and p3b({r}.path, d) <= len(p3a({r}.path, d).content.content))"
lemma("rp-dvalid", {"rp": "ResolvedPos", "k": "int"},
      requires=["0 <= k", "k <= rp.depth", "dvalid(p3a(rp.path, 0))", "not p3a(rp.path, 0).type.is_text", RPC0.format(r="rp"), RPC1.format(r="rp"), RPC2.format(r="rp")],
      ensures=["dvalid(p3a(rp.path, k))"], induct="k", calls=[("dvalid-kids", ["p3a(rp.path, k - 1)", "p3b(rp.path, k - 1)"])], props=P + ["C02"])

SE = "(end if end is not None else start)"
contract(FR, "add_range", {"start": "opt[ResolvedPos]", "end": "opt[ResolvedPos]", "depth": "int", "target": "list[Node]"}, mutates=["target"],
         requires=["start is not None or end is not None", "0 <= depth",
                   "start is not None ==> depth <= start.depth", "end is not None ==> depth <= end.depth",
                   "start is not None and end is not None ==> rp_node(start, depth) == rp_node(end, depth)"],
         # children of a deeply valid (non-text) node, and cut text nodes, are added: deep validity of the list is kept
         ensures=[f"dvalid(rp_node({SE}, depth)) and not rp_node({SE}, depth).type.is_text and fvalid(old(target)) ==> fvalid(target)",
                  # size accounting of the two one-sided forms: everything before `end` / after `start` inside the node at that depth
                  "start is None ==> pre(target, len(target)) == pre(old(target), len(old(target))) + (end.pos if end.depth == depth else p3c(end.path, depth)) - rp_start(end, depth)",
                  "end is None ==> pre(target, len(target)) == pre(old(target), len(old(target))) + rp_end(start, depth)"
                  " - (start.pos if start.depth == depth else p3c(start.path, depth) + nsize(rp_node(start, depth).content.content[rp_index(start, depth)]))"],
         loops={0: dict(invariant=[f"dvalid(rp_node({SE}, depth)) and not rp_node({SE}, depth).type.is_text and fvalid(old(target)) ==> fvalid(target)",
                                   "0 <= i", f"end_index <= len(rp_node({SE}, depth).content.content)", f"node == rp_node({SE}, depth)",
                                   "start_index <= i", "i <= end_index or i == start_index",
                                   f"pre(target, len(target)) == pre(old(target), len(old(target))) + ((nsize(rp_node(start, depth).content.content[rp_index(start, depth)]) - rp_toff(start)) if (start is not None and start.depth <= depth and rp_toff(start) != 0) else 0) + pre(rp_node({SE}, depth).content.content, i) - pre(rp_node({SE}, depth).content.content, start_index)",
                                   "start is None ==> start_index == 0",
                                   "start is not None ==> start_index == rp_index(start, depth) + (1 if (start.depth > depth or rp_toff(start) != 0) else 0)",
                                   f"end is None ==> end_index == len(rp_node({SE}, depth).content.content)", "end is not None ==> end_index == rp_index(end, depth)"],
                        decreases="end_index - i")},
         calls_func={"add_node": [("dvalid-kids", ["node", "i"])]},
         props=P + ["C02"])

contract(FR, "replace_two_way", {"from_": "ResolvedPos", "to": "ResolvedPos", "depth": "int"}, returns="Fragment",
         requires=["0 <= depth", "depth <= from_.depth", "from_.depth == to.depth"],
         may_raise={"ReplaceError": "True"},
         # for positions in deeply valid documents, every node of what the two-way rebuild returns is deeply valid
         ensures=["dvalid(rp_node(from_, 0)) and not rp_node(from_, 0).type.is_text and dvalid(rp_node(to, 0)) and not rp_node(to, 0).type.is_text ==> fvalid(result.content)",
                  # size: what lies before `from_` and after `to` inside their ancestors at this depth (the tokens in between are gone)
                  "result.size == (from_.pos - rp_start(from_, depth)) + (rp_end(to, depth) - to.pos)"],
         decreases="from_.depth - depth",
         calls_func={"add_range": [("rp-dvalid", ["from_", "depth"]), ("rp-dvalid", ["to", "depth"])],
                     "joinable": [("rp-dvalid", ["from_", "depth + 1"])]},
         uses=["pre-nonneg"],
         locals={"content": "list[Node]"},
         props=P + ["C02"])


# ---- validity depends only on the children's types and marks (extensionality lemmas)
SAMET = "all_(0, len(c), lambda j: u[j].type == c[j].type)"
lemma("run-ext", {"m": "ContentMatch", "c": "list[Node]", "u": "list[Node]", "i": "int", "e": "int"},
      requires=["len(u) == len(c)", SAMET, "0 <= i", "e <= len(c)"],
      ensures=["run_ok(m, c, i, e) == run_ok(m, u, i, e)", "run_st(m, c, i, e) == run_st(m, u, i, e)"],
      induct="i", step=1, decreases="e - i", generalize=["m"], triggers=["run_ok(m, c, i, e)", "run_st(m, c, i, e)"], props=P + ["C02"])
lemma("fbc-ext", {"nt": "NodeType", "c": "list[Node]", "u": "list[Node]", "i": "int", "e": "int"},
      requires=["len(u) == len(c)", "all_(0, len(c), lambda j: u[j].marks == c[j].marks)", "e <= len(c)"],
      ensures=["(first_bad_child(nt, c, i, e) < 0) == (first_bad_child(nt, u, i, e) < 0)"],
      induct="i", step=1, decreases="e - i", props=P + ["C02"])
lemma("valid-seq-ext", {"nt": "NodeType", "c": "list[Node]", "u": "list[Node]"},
      requires=["len(u) == len(c)", SAMET, "all_(0, len(c), lambda j: u[j].marks == c[j].marks)"],
      ensures=["valid_seq(nt, c) == valid_seq(nt, u)"],
      calls=[("run-ext", ["nt.content_match", "c", "u", "0", "len(c)"]), ("fbc-ext", ["nt", "c", "u", "0", "len(c)"])], props=P + ["C02"])
lemma("rp-at-boundary", {"rp": "ResolvedPos"},
      requires=["rp.depth >= 0", RPC0.format(r="rp"),
                "p3c(rp.path, 0) == pre(p3a(rp.path, 0).content.content, p3b(rp.path, 0))",
                "all_(1, rp.depth + 1, lambda d: p3c(rp.path, d) == p3c(rp.path, d - 1) + 1 + pre(p3a(rp.path, d).content.content, p3b(rp.path, d)))",
                "rp.pos >= p3c(rp.path, rp.depth)",
                "rp.pos == p3c(rp.path, rp.depth) or (p3b(rp.path, rp.depth) < len(p3a(rp.path, rp.depth).content.content) and p3a(rp.path, rp.depth).content.content[p3b(rp.path, rp.depth)].type.is_text"
                " and rp.pos - p3c(rp.path, rp.depth) < nsize(p3a(rp.path, rp.depth).content.content[p3b(rp.path, rp.depth)]))",
                "rp.parent_offset == rp.pos - (0 if rp.depth == 0 else p3c(rp.path, rp.depth - 1) + 1)",
                "p3a(rp.path, rp.depth).content.size == pre(p3a(rp.path, rp.depth).content.content, len(p3a(rp.path, rp.depth).content.content))"],
      ensures=["at_boundary(p3a(rp.path, rp.depth).content.content, rp.parent_offset)", "0 <= rp.parent_offset",
               "rp.parent_offset <= p3a(rp.path, rp.depth).content.size"],
      calls=[("bidx-unique", ["p3a(rp.path, rp.depth).content.content", "rp.parent_offset", "p3b(rp.path, rp.depth)", "0"]),
             ("pre-nonneg", ["p3a(rp.path, rp.depth).content.content", "p3b(rp.path, rp.depth)"]),
             ("pre-step", ["p3a(rp.path, rp.depth).content.content", "p3b(rp.path, rp.depth)", "len(p3a(rp.path, rp.depth).content.content)"]),
             ("pre-step", ["p3a(rp.path, rp.depth).content.content", "p3b(rp.path, rp.depth) + 1", "len(p3a(rp.path, rp.depth).content.content)"])],
      terms=["pre(p3a(rp.path, rp.depth).content.content, p3b(rp.path, rp.depth) + 1)"], props=P + ["C02"])


# ---- replace_outer: every node of the document replace returns is valid
abstract("prep_valid", ["Slice", "Node", "int"], "bool")
EXTRA = "(along.depth - slice.open_start)"
contract(FR, "prepare_slice_for_replace", {"slice": "Slice", "along": "ResolvedPos"}, returns="dict{start:ResolvedPos,end:ResolvedPos}",
         requires=["slice.open_start >= 0", "slice.open_start <= along.depth", "odfit(slice)"],
         may_raise={"ValueError": "True"},
         ensures=["result['start'].depth == along.depth", "result['end'].depth == along.depth - slice.open_start + slice.open_end",
                  f"all_(0, {EXTRA} + 1, lambda k: rp_node(result['start'], k) == rp_node(result['end'], k))",
                  "not rp_node(result['start'], 0).type.is_text"],
         defines=["dvalid(rp_node(result['start'], 0)) == prep_valid(slice, rp_node(along, 0), along.pos)"],
         trusted="C02 (bounded, and evaluated natively on every call of the workload): the slice content is wrapped in copies of the ancestors of the insertion point; its two open ends resolve "
                 "to positions as deep as the insertion point / the end of the range, inside the same wrappers",
         props=P)

S3 = ["0 <= depth", "depth <= from_.depth", "depth <= to.depth", "start.depth == from_.depth", "end.depth == to.depth",
      "all_(0, depth + 1, lambda k: rp_node(start, k) == rp_node(end, k))"]
V3 = ("(dvalid(rp_node(from_, 0)) and not rp_node(from_, 0).type.is_text and dvalid(rp_node(to, 0)) and not rp_node(to, 0).type.is_text"
      " and dvalid(rp_node(start, 0)) and not rp_node(start, 0).type.is_text and dvalid(rp_node(end, 0)) and not rp_node(end, 0).type.is_text)")
contract(FR, "replace_three_way", {"from_": "ResolvedPos", "start": "ResolvedPos", "end": "ResolvedPos", "to": "ResolvedPos", "depth": "int"}, returns="Fragment",
         requires=S3,
         may_raise={"ReplaceError": "True"},
         # for positions in deeply valid trees (the document, and the prepared slice node), every node of the result is deeply valid
         ensures=[f"{V3} ==> fvalid(result.content)"],
         decreases="from_.depth + to.depth - 2 * depth",
         calls_func={"add_range": [("rp-dvalid", ["from_", "depth"]), ("rp-dvalid", ["to", "depth"]), ("rp-dvalid", ["start", "depth"]), ("rp-dvalid", ["end", "depth"])],
                     "joinable": [("rp-dvalid", ["from_", "depth + 1"]), ("rp-dvalid", ["end", "depth + 1"])]},
         uses=["pre-nonneg"],
         locals={"content": "list[Node]", "open_start": "opt[Node]", "open_end": "opt[Node]"},
         props=P + ["C02"])

SAME = "all_(0, depth + 1, lambda k: rp_node(from_, k) == rp_node(to, k))"
IDX_SAME = "all_(0, depth, lambda k: rp_index(from_, k) == rp_index(to, k))"
SAME_P = "all_(0, depth + 1, lambda k: p3a(from_.path, k) == p3a(to.path, k))"
IDX_SAME_P = "all_(0, depth, lambda k: p3b(from_.path, k) == p3b(to.path, k))"
PD = "all_(1, {r}.depth + 1, lambda d: p3c({r}.path, d) == p3c({r}.path, d - 1) + 1 + pre(p3a({r}.path, d).content.content, p3b({r}.path, d)))"
P0 = "p3c({r}.path, 0) == pre(p3a({r}.path, 0).content.content, p3b({r}.path, 0))"
lemma("same-start", {"a": "ResolvedPos", "b": "ResolvedPos", "n": "int"},
      # two resolved paths that agree on nodes (down to level n) and indices (above level n) have the same offsets above level n
      requires=["0 <= n", "n <= a.depth", "n <= b.depth", "all_(0, n + 1, lambda k: p3a(a.path, k) == p3a(b.path, k))", "all_(0, n, lambda k: p3b(a.path, k) == p3b(b.path, k))",
                P0.format(r="a"), P0.format(r="b"), PD.format(r="a"), PD.format(r="b")],
      ensures=["n >= 1 ==> p3c(a.path, n - 1) == p3c(b.path, n - 1)"], induct="n", props=P + ["C02", "C03"])
# the hypothesis of C01: the document is deeply valid (and a real document, not a text node), and the
# nodes of a closed slice are themselves deeply valid (for an open slice see replace_three_way)
VALID_IN = ("(dvalid(rp_node(from_, 0)) and not rp_node(from_, 0).type.is_text and implies(slice.open_start == 0 and slice.open_end == 0, fvalid(slice.content.content))"
            " and prep_valid(slice, rp_node(from_, 0), from_.pos))")
contract(FR, "replace_outer", {"from_": "ResolvedPos", "to": "ResolvedPos", "slice": "Slice", "depth": "int"}, returns="Node",
         requires=["0 <= depth", "depth <= from_.depth - slice.open_start", "depth <= to.depth - slice.open_end", f"not ({GUARD})", SAME, IDX_SAME, SAME_P, IDX_SAME_P],
         may_raise={"ReplaceError": "True", "ValueError": "True"},
         # for a deeply valid document and a payload-valid slice (VALID_IN) the rebuilt node is deeply valid
         ensures=[f"{VALID_IN} ==> dvalid(result)", "result.type == rp_node(from_, depth).type", "result.marks == rp_node(from_, depth).marks",
                  # a deletion shrinks the node by exactly the deleted range
                  "slice.content.size == 0 ==> result.content.size == rp_node(from_, depth).content.size - (to.pos - from_.pos)",
                  # a closed slice put between two positions of one parent: the node grows by the slice's size minus the range
                  "slice.open_start == 0 and slice.open_end == 0 and from_.depth == to.depth and all_(depth, from_.depth, lambda k: rp_index(from_, k) == rp_index(to, k))"
                  " ==> result.content.size == rp_node(from_, depth).content.size - (to.pos - from_.pos) + slice.content.size"],
         decreases="from_.depth - depth",
         calls_func={"replace_outer": [("rp-dvalid", ["from_", "depth"])],
                     "Fragment.cut": [("rp-at-boundary", ["from_"]), ("rp-at-boundary", ["to"]), ("bidx-unique", ["content.content", "0", "0", "0"]),
                                      ("same-start", ["from_", "to", "depth"])],
                     "replace_two_way": [("pre-step", ["slice.content.content", "0", "len(slice.content.content)"])],
                     "close": [("rp-dvalid", ["from_", "depth"]), ("rp-at-boundary", ["from_"]), ("rp-at-boundary", ["to"]), ("rp-dvalid", ["from_", "from_.depth"]),
                               ("dvalid-kids", ["rp_node(from_, from_.depth)", "0"])]},
         calls=[("rp-dvalid", ["from_", "depth"]), ("dvalid-kids", ["node", "index"]), ("same-start", ["from_", "to", "depth"]),
                ("valid-seq-ext", ["node.type", "node.content.content", "result.content.content"]),
                ("fvalid-update", ["node.content.content", "result.content.content", "inner", "index"]),
                ("dvalid-intro", ["result"])],
         locals={"inner": "Node"},
         uses=["pre-nonneg"],
         props=P + ["C02"])
_api.CONTRACTS["replace"].requires = ["rp_node(from_, 0) == rp_node(to, 0)"]
_api.CONTRACTS["replace"].cases[0]["ensures"] = [f"{VALID_IN} ==> dvalid(result)", "result.type == rp_node(from_, 0).type",
                                                  "slice.content.size == 0 ==> result.content.size == rp_node(from_, 0).content.size - (to.pos - from_.pos)",
                                                  "slice.open_start == 0 and slice.open_end == 0 and from_.depth == to.depth and all_(0, from_.depth, lambda k: rp_index(from_, k) == rp_index(to, k))"
                                                  " ==> result.content.size == rp_node(from_, 0).content.size - (to.pos - from_.pos) + slice.content.size"]
_api.CONTRACTS["replace"].may_raise = {"ValueError": "True", "ReplaceError": "True"}


# ---- Fragment.append proved (replaces the trusted size-only contract of transform_steps when this sidecar is loaded)
VALAPP = "(fvalid(self.content) and fvalid(other.content))"
contract(FF, "Fragment.append", {"self": "Fragment", "other": "Fragment"}, returns="Fragment",
         ensures=["result.size == self.size + other.size", f"{VALAPP} ==> fvalid(result.content)"],
         loops={0: dict(invariant=["0 <= i", "i <= len(other.content)", "len(content) >= 1",
                                   "pre(content, len(content)) == self.size + pre(other.content, i)",
                                   f"{VALAPP} ==> fvalid(content)"],
                        decreases="len(other.content) - i",
                        entry_calls=[("pre-update", ["self.content", "len(self.content) - 1", "content[len(content) - 1]", "len(self.content)"]),
                                     ("pre-step", ["other.content", "0", "1"]), ("pre-step", ["self.content", "len(self.content) - 1", "len(self.content)"]),
                                     ("dvalid-text", ["content[len(content) - 1]"]),
                                     ("fvalid-update", ["self.content", "content", "content[len(content) - 1]", "len(self.content) - 1"])],
                        calls=[("pre-concat", ["content[0:len(content) - 1]", "[content[len(content) - 1]]", "1"]),
                               ("pre-concat-left", ["content[0:len(content) - 1]", "[content[len(content) - 1]]", "len(content) - 1"]),
                               ("fvalid-append", ["content[0:len(content) - 1]", "content", "content[len(content) - 1]"]),
                               ("fvalid-at", ["other.content", "i - 1"])])},
         calls=[("pre-step", ["self.content", "0", "len(self.content)"]), ("pre-step", ["other.content", "0", "len(other.content)"])],
         locals={"content": "list[Node]", "last": "opt[Node]", "first": "opt[Node]"},
         uses=["pre-nonneg"],
         props=P + ["C02", "C16"])
lemma("fvalid-at", {"c": "list[Node]", "k": "int"}, requires=["fvalid(c)", "0 <= k", "k < len(c)"], ensures=["dvalid(c[k])"], props=P + ["C02"])


# ---- Fragment.cut proved for flat cuts (replaces the trusted contract above)
CC = "self.content"
VALCUT = f"(fvalid({CC}) and at_boundary({CC}, from_) and (old(to) is None or at_boundary({CC}, to)))"
contract(FF, "Fragment.cut", {"self": "Fragment", "from_": "int", "to": "opt[int]"}, returns="Fragment",
         requires=["0 <= from_", "to is None or to <= self.size"],
         may_raise={"ValueError": "True"},
         # cutting at child boundaries or inside text children keeps every node deeply valid (no partial non-text node arises)
         ensures=[f"fvalid({CC}) and at_boundary({CC}, from_) and (to is None or at_boundary({CC}, to)) ==> fvalid(result.content)",
                  # a flat cut holds exactly the tokens of its range
                  f"at_boundary({CC}, from_) and (to is None or at_boundary({CC}, to)) ==> result.size == max(0, (self.size if to is None else to) - from_)"],
         loops={0: dict(invariant=["0 <= i", f"i <= len({CC})", f"pos == pre({CC}, i)", "to <= self.size", "size == pre(result, len(result))", "from_ < to",
                                   f"{VALCUT} ==> fvalid(result)",
                                   f"at_boundary({CC}, from_) and (old(to) is None or at_boundary({CC}, to)) ==> size == max(0, min(pos, to) - from_)"],
                        decreases=f"len({CC}) - i",
                        calls=[("bidx-unique", [CC, "from_", "i - 1", "0"]), ("bidx-unique", [CC, "to", "i - 1", "0"]),
                               ("pre-concat", ["result[0:len(result) - 1]", "[result[len(result) - 1]]", "1"]),
                               ("pre-concat-left", ["result[0:len(result) - 1]", "[result[len(result) - 1]]", "len(result) - 1"]),
                               ("fvalid-append", ["result[0:len(result) - 1]", "result", "result[len(result) - 1]"]),
                               ("dvalid-text", ["result[len(result) - 1]"]), ("fvalid-at", [CC, "i - 1"]),
                               ("pre-step", [CC, "i", f"len({CC})"])])},
         calls=[("pre-step", [CC, "0", f"len({CC})"])],
         calls_func={},
         locals={"result": "list[Node]"},
         uses=["pre-nonneg"],
         props=P + ["C02"])

# C03: the size clause for deletions rests on these
for _k in ("ReplaceStep.apply", "StepResult.from_replace", "Node.replace", "replace", "replace_outer", "replace_two_way", "add_range", "add_node", "close", "Node.copy",
           "ResolvedPos.node_after", "ResolvedPos.node_before", "Fragment.replace_child", "Node.resolve", "ResolvedPos.resolve_cached", "ResolvedPos.resolve"):
    if "C03" not in _api.CONTRACTS[_k].props:
        _api.CONTRACTS[_k].props.append("C03")
