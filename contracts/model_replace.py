"""Contracts for the replace entry points and the replace steps' apply flow (C01)."""
import os

from pyvc.api import abstract, axiom, cls, contract, lemma, spec_file

from . import classes  # noqa: F401
from . import model_content  # noqa: F401
from . import model_core  # noqa: F401
from . import model_pos  # noqa: F401
from . import transform_steps  # noqa: F401
from .classes import FN, FR

FRS = "prosemirror/transform/replace_step.py"
FST = "prosemirror/transform/step.py"
spec_file(os.path.join(os.path.dirname(os.path.dirname(os.path.abspath(__file__))), "spec", "replacespec.py"))
P = ["C01"]
abstract("cbetween", ["Node", "int", "int"], "bool")
abstract("sl_os", ["Node", "int", "int"], "int")
abstract("sl_oe", ["Node", "int", "int"], "int")

# ---- Node.copy: the rebuilt node keeps type, attributes and marks
contract(FN, "Node.copy", {"self": "Node", "content": "opt[Fragment]"}, returns="Node",
         body_requires=["not self.type.is_text"],  # a text node is never rebuilt through copy (its content is its text)
         requires=["content is not None"],
         ensures=["result.type == self.type", "result.attrs == self.attrs", "result.content == content", "result.marks == self.marks"],
         props=P)

# ---- close: the only place where replace builds a node around new content validates that content
contract(FR, "close", {"node": "Node", "content": "Fragment"}, returns="Node",
         requires=["not node.type.is_text"],
         raises={"ReplaceError": "not valid_seq(node.type, content.content)"},
         ensures=["result.type == node.type", "result.content == content", "result.marks == node.marks", "result.attrs == node.attrs",
                  "valid_seq(result.type, result.content.content)"],
         props=P + ["C02"])
contract(FR, "check_join", {"main": "Node", "sub": "Node"},
         raises={"ReplaceError": "not (sub.type == main.type or compat_idx(sub.type.content_match.next, main.type.content_match.next, 0) >= 0)"},
         props=P + ["C02"])
contract(FR, "joinable", {"before": "ResolvedPos", "after": "ResolvedPos", "depth": "int"}, returns="Node",
         requires=["0 <= depth", "depth <= before.depth", "depth <= after.depth"],
         raises={"ReplaceError": "not (rp_node(after, depth).type == rp_node(before, depth).type"
                                 " or compat_idx(rp_node(after, depth).type.content_match.next, rp_node(before, depth).type.content_match.next, 0) >= 0)"},
         ensures=["result == rp_node(before, depth)"], props=P + ["C02"])

# ---- replace(): the two open-depth guards, then the recursive rebuild (bounded: C02 token oracle)
contract(FR, "replace_outer", {"from_": "ResolvedPos", "to": "ResolvedPos", "slice": "Slice", "depth": "int"}, returns="Node",
         may_raise={"ReplaceError": "True"},
         trusted="C02 / C01 (bounded): the recursive rebuild along the two resolved positions; every node it builds around new content goes through close (proved above)",
         props=P)
SC = "slice.content.content"
contract(FR, "open_depths_fit", {"slice": "Slice"}, returns="bool", ensures=["result == odfit(slice)"],
         loops={0: dict(invariant=[
                    "slice.open_start >= 0", "slice.open_end >= 0",
                    f"node is None ==> fits_first({SC}, slice.open_start) == (slice.open_start - _ <= 0)",
                    f"node is not None ==> fits_first({SC}, slice.open_start) == (slice.open_start - _ <= 0 or (not leaf_t(node.type) and fits_first(node.content.content, slice.open_start - _ - 1)))"]),
                1: dict(invariant=[
                    "slice.open_start >= 0", "slice.open_end >= 0", f"fits_first({SC}, slice.open_start)",
                    f"node is None ==> fits_last({SC}, slice.open_end) == (slice.open_end - _ <= 0)",
                    f"node is not None ==> fits_last({SC}, slice.open_end) == (slice.open_end - _ <= 0 or (not leaf_t(node.type) and fits_last(node.content.content, slice.open_end - _ - 1)))"])},
         locals={"node": "opt[Node]"}, props=P + ["C02"])
GUARD = "from_.pos > to.pos or not odfit(slice) or slice.open_start > from_.depth or from_.depth - slice.open_start != to.depth - slice.open_end"
contract(FR, "replace", {"from_": "ResolvedPos", "to": "ResolvedPos", "slice": "Slice"}, returns="Node",
         raises={"ReplaceError": GUARD}, may_raise={"ReplaceError": "True"},
         props=P + ["C02"])
OUT = "pos < 0 or pos > {d}.content.size"
contract(FN, "Node.resolve", {"self": "Node", "pos": "int"}, returns="ResolvedPos",
         raises={"ValueError": OUT.format(d="self")}, ensures=["result.pos == pos", "rp_node(result, 0) == self"], props=P + ["C09"])
contract("prosemirror/model/resolvedpos.py", "ResolvedPos.resolve_cached", {"doc": "Node", "pos": "int"}, returns="ResolvedPos",
         raises={"ValueError": OUT.format(d="doc")}, ensures=["result.pos == pos", "rp_node(result, 0) == doc"], props=P + ["C09"])
RANGE = "from_ < 0 or from_ > {d}.content.size or to < 0 or to > {d}.content.size"
contract(FN, "Node.replace", {"self": "Node", "from_": "int", "to": "int", "slice": "Slice"}, returns="Node",
         may_raise={"ValueError": RANGE.format(d="self"), "ReplaceError": "True"},
         # out-of-range positions are reported, never indexed with
         ensures=["0 <= from_ and from_ <= self.content.size and 0 <= to and to <= self.content.size"],
         props=P + ["C02"])

# ---- step results
contract(FST, "StepResult.from_replace", {"doc": "Node", "from_": "int", "to": "int", "slice": "Slice"}, returns="StepResult",
         # a ReplaceError becomes a failed result; only an out-of-range position may raise (ValueError)
         may_raise={"ValueError": "from_ < 0 or from_ > doc.content.size or to < 0 or to > doc.content.size"},
         ensures=["(result.failed is None) == (result.doc is not None)"],
         props=P)

contract(FRS, "content_between", {"doc": "Node", "from_": "int", "to": "int"}, returns="bool",
         raises={"ValueError": "from_ < 0 or from_ > doc.content.size"},
         defines=["result == cbetween(doc, from_, to)"],
         loops={0: dict(invariant=["0 <= depth", "depth <= from__.depth"], decreases="depth"),
                1: dict(invariant=[], decreases="dist")},
         locals={"next": "opt[Node]"},
         props=P)

from pyvc import api as _api  # noqa: E402

_ns = _api.CONTRACTS["Node.slice"]
_ns.defines = ["result.open_start == sl_os(self, from_, self.content.size if to is None else to)",
               "result.open_end == sl_oe(self, from_, self.content.size if to is None else to)"]
_ns.may_raise = {"ValueError": "from_ < 0 or from_ > self.content.size or (to is not None and (to < 0 or to > self.content.size))"}
# total: a step decoded from a peer's JSON may ask for any range; the size equation is promised for well-formed ranges only
_ns.requires = []
_ns.cases[0]["ensures"] = ["(0 <= from_ and (to is None or (from_ <= to and to <= self.content.size))) ==> "
                           "result.content.size - result.open_start - result.open_end == (self.content.size if to is None else to) - from_"]

from . import model_diff  # noqa: E402,F401  (wt / tree-wf: documents are finite trees)

FF = "prosemirror/model/fragment.py"
contract(FF, "Fragment.cut", {"self": "Fragment", "from_": "int", "to": "opt[int]"}, returns="Fragment", may_raise={"ValueError": "True"},
         trusted="C02 (bounded): token-level meaning of cutting a fragment; nothing about the result is assumed here", props=P)

lemma("bidx-unique", {"c": "list[Node]", "pos": "int", "idx": "int", "k": "int"},
      requires=["0 <= k", "k <= idx", "idx <= len(c)", "pre(c, idx) <= pos",
                "pre(c, idx) == pos or (idx < len(c) and pos < pre(c, idx + 1))"],
      ensures=["bidx(c, pos, k) == idx"], induct="k", step=1, decreases="idx - k",
      calls=[("pre-step", ["c", "k + 1", "idx"]), ("pre-step", ["c", "idx", "idx + 1"])],
      terms=["pre(c, idx + 1)", "pre(c, k + 1)"], props=P)

lemma("ins-unfold", {"c": "list[Node]", "d": "int", "i": "list[Node]", "pt": "NodeType", "os_": "int", "oe": "int"},
      ensures=["ins_chk(c, d, i, pt, os_, oe) == (replace_ok(pt, c, bidx(c, d, 0), bidx(c, d, 0), i, 0, len(i)) if at_boundary(c, d) else ins_deeper(c, d, i, os_, oe))",
               "ins_nochk(c, d, i, os_, oe) == (at_boundary(c, d) or ins_deeper(c, d, i, os_, oe))"], props=P)

C_ = "content.content"
contract(FR, "insert_into", {"content": "Fragment", "dist": "int", "insert": "Fragment", "parent": "opt[Node]", "open_start": "int", "open_end": "int"},
         returns="opt[Fragment]",
         requires=["parent is not None ==> parent.content == content"],
         may_raise={"ValueError": "True"},
         # None exactly when the landing node is complete and does not accept the gap content there
         ensures=[f"(result is None) == (not (ins_chk({C_}, dist, insert.content, parent.type, open_start, open_end) if parent is not None"
                  f" else ins_nochk({C_}, dist, insert.content, open_start, open_end)))"],
         decreases="wt(content)",
         calls_func={"insert_into": [("tree-wf", ["content", "index"])]},
         calls=[("bidx-unique", [C_, "dist", "index", "0"]), ("ins-unfold", [C_, "dist", "insert.content", "parent.type", "open_start", "open_end"])],
         locals={"inner": "opt[Fragment]", "child": "opt[Node]"},
         props=P)

STRUCT_RS = "self.structure and cbetween(doc, self.from_, self.to)"
contract(FRS, "ReplaceStep.apply", {"self": "ReplaceStep", "doc": "Node"}, returns="StepResult",
         may_raise={"ValueError": "True"},
         ensures=["(result.failed is None) == (result.doc is not None)",
                  # a structure step never overwrites content
                  f"({STRUCT_RS}) ==> result.failed is not None"],
         props=P)
contract(FRS, "ReplaceAroundStep.apply", {"self": "ReplaceAroundStep", "doc": "Node"}, returns="StepResult",
         may_raise={"ValueError": "True"},
         ensures=["(result.failed is None) == (result.doc is not None)",
                  "(self.structure and (cbetween(doc, self.from_, self.gap_from) or cbetween(doc, self.gap_to, self.to))) ==> result.failed is not None",
                  # the gap must be a flat range: open on neither side
                  "(sl_os(doc, self.gap_from, self.gap_to) != 0 or sl_oe(doc, self.gap_from, self.gap_to) != 0) ==> result.failed is not None"],
         props=P + ["C03"])

contract(FR, "Slice.insert_at", {"self": "Slice", "pos": "int", "fragment": "Fragment"}, returns="opt[Slice]",
         may_raise={"ValueError": "True"},
         ensures=["result is not None ==> result.open_start == self.open_start and result.open_end == self.open_end",
                  "(result is None) == (not ins_nochk(self.content.content, pos + self.open_start, fragment.content, self.open_start, self.open_end))"],
         props=P)

# C02's deductive part also covers the join / validation points of replace
for _k in ("NodeType.compatible_content", "NodeType.valid_content", "ContentMatch.compatible"):
    if "C02" not in _api.CONTRACTS[_k].props:
        _api.CONTRACTS[_k].props.append("C02")
