"""Contracts for prosemirror/model/diff.py (C20)."""
import os

from pyvc.api import abstract, axiom, contract, invariant, lemma, spec_file

from . import classes  # noqa: F401
from . import model_core  # noqa: F401
from .classes import FN

FD = "prosemirror/model/diff.py"
spec_file(os.path.join(os.path.dirname(os.path.dirname(os.path.abspath(__file__))), "spec", "diffspec.py"))

P = ["C20"]
abstract("ub", ["str"], "list[int]")
abstract("wt", ["Fragment"], "int")

# ---- trusted facts (each also evaluated natively by the bounded driver)
axiom("ub-len", {"s": "str"}, "len(ub(s)) == 2 * u16(s)", "A7: encode('utf-16-le') yields two bytes per UTF-16 unit", triggers=["ub(s)"])
axiom("ub-prefix", {"x": "str", "y": "str"},
      "prefix_of(x, y) == (len(ub(x)) <= len(ub(y)) and fdu(ub(x), ub(y), 0, len(ub(x)) // 2) == len(ub(x)) // 2)",
      "A7: for well-formed strings, x is a prefix of y exactly when every UTF-16 unit of x equals the unit of y at the same index (the encoding is an injective homomorphism and a str never ends inside a surrogate pair)",
      triggers=["ub(x)", "ub(y)"])
axiom("tree-wf", {"f": "Fragment", "i": "int"},
      "implies(0 <= i and i < len(f.content), 0 <= wt(f.content[i].content) and wt(f.content[i].content) < wt(f))",
      "documents are finite trees: a fragment nested in a child of f has fewer nodes than f (objects are immutable and built bottom-up)",
      manual=True)
axiom("text-node-class", {"n": "Node"}, "implies(n.type.is_text, isinstance_TextNode(n))",
      "type invariant: nodes of the text type are TextNode instances (NodeType.create refuses text; Schema.text / TextNode are the only constructors)",
      triggers=["n.type.is_text"])
axiom("same-markup-type", {"x": "Node", "y": "Node"}, "implies(same_markup_fn(x, y), x.type.is_text == y.type.is_text)",
      "same_markup compares type names and NodeType.is_text is `name == 'text'`", triggers=["same_markup_fn(x, y)"])
axiom("text-no-content", {"n": "Node"}, "implies(n.type.is_text, len(n.content.content) == 0)",
      "type invariant: TextNode.__init__ sets content = Fragment.empty", triggers=["n.type.is_text"])

contract(FN, "Node.same_markup", {"self": "Node", "other": "Node"}, returns="bool", ensures=["result == same_markup_fn(self, other)"],
         trusted="definition of same_markup_fn (type name, attrs and mark set equal); the comparison helpers are outside the subset", props=P)

# ---- lemmas about the first differing unit
lemma("fdu-first", {"p": "list[int]", "q": "list[int]", "k": "int", "m": "int", "n": "int"},
      requires=["0 <= k", "k <= m", "m < n", "all_(k, m, lambda j: not unit_ne(p, q, j))", "unit_ne(p, q, m)"],
      ensures=["fdu(p, q, k, n) == m"], induct="k", step=1, decreases="m - k", props=P)
lemma("fdu-none", {"p": "list[int]", "q": "list[int]", "k": "int", "n": "int"},
      requires=["0 <= k", "k <= n", "all_(k, n, lambda j: not unit_ne(p, q, j))"],
      ensures=["fdu(p, q, k, n) == n"], induct="k", step=1, decreases="n - k", props=P)
lemma("fdu-sym", {"p": "list[int]", "q": "list[int]", "k": "int", "n": "int"},
      requires=["0 <= k"], ensures=["fdu(p, q, k, n) == fdu(q, p, k, n)"], induct="k", step=1, decreases="n - k", props=P)

lemma("doff-empty", {"x": "list[Node]", "y": "list[Node]"}, requires=["len(x) == 0", "len(y) == 0"],
      ensures=["doff(x, y, 0) == 0 - 1", "feq(x, y)"], props=P)

A, B = "a.content", "b.content"
contract(FD, "find_diff_start", {"a": "Fragment", "b": "Fragment", "pos": "int"}, returns="opt[int]",
         requires=["pos >= 0"],
         ensures=[f"(result is None) == (doff({A}, {B}, 0) < 0)",
                  f"result is not None ==> result == pos + doff({A}, {B}, 0)",
                  f"(result is None) == feq({A}, {B})"],
         decreases="wt(a)",
         loops={0: dict(invariant=["0 <= i", f"i <= len({A})", f"i <= len({B})",
                                   "pos >= old(pos)",
                                   f"all_(0, i, lambda j: neq({A}[j], {B}[j]))",
                                   f"(doff({A}, {B}, i) < 0) == (doff({A}, {B}, 0) < 0)",
                                   f"doff({A}, {B}, i) >= 0 ==> pos + doff({A}, {B}, i) == old(pos) + doff({A}, {B}, 0)"],
                        decreases=f"len({A}) - i",
                        # a fragment of size 0 has no children (every node occupies at least one token)
                        calls=[("pre-step", ["child_a.content.content", "0", "len(child_a.content.content)"]),
                               ("pre-step", ["child_b.content.content", "0", "len(child_b.content.content)"]),
                               ("doff-empty", ["child_a.content.content", "child_b.content.content"])]),
                1: dict(invariant=["_acc1 is None", "all_(0, index, lambda j: not unit_ne(units_a, units_b, j))"],
                        # no differing unit below the shorter length: one text is a prefix of the other (contradicts the two startswith tests)
                        exit_calls=[("fdu-none", ["units_a", "units_b", "0", "index"]), ("fdu-sym", ["units_a", "units_b", "0", "index"])])},
         locals={"_acc1": "opt[int]", "inner": "opt[int]"},
         calls_func={"find_diff_start": [("tree-wf", ["a", "i"])]},
         calls=[("fdu-first", ["units_a", "units_b", "0", "next_index", "min(len(units_a), len(units_b)) // 2"]),
                ("fdu-sym", ["ub(child_a.text)", "ub(child_b.text)", "0", "len(ub(child_b.text)) // 2"])],
         props=P)

# ---------------------------------------------------------------- find_diff_end
lemma("fsu-first", {"p": "list[int]", "q": "list[int]", "k": "int", "m": "int", "n": "int"},
      requires=["0 <= k", "k <= m", "m < n", "all_(k, m, lambda j: not unit_ne_end(p, q, j))", "unit_ne_end(p, q, m)"],
      ensures=["fsu(p, q, k, n) == m"], induct="k", step=1, decreases="m - k", props=P)
lemma("fsu-none", {"p": "list[int]", "q": "list[int]", "k": "int", "n": "int"},
      requires=["0 <= k", "k <= n", "all_(k, n, lambda j: not unit_ne_end(p, q, j))"],
      ensures=["fsu(p, q, k, n) == n"], induct="k", step=1, decreases="n - k", props=P)
lemma("dend-empty", {"x": "list[Node]", "y": "list[Node]"}, requires=["len(x) == 0", "len(y) == 0"],
      ensures=["dend(x, y, 0, 0) == 0 - 1"], props=P)

lemma("feq-at", {"x": "list[Node]", "y": "list[Node]", "k": "int"}, requires=["feq(x, y)", "0 <= k", "k < len(x)"],
      ensures=["len(x) == len(y)", "neq(x[k], y[k])"], props=P)

LA, LB = f"len({A})", f"len({B})"
contract(FD, "find_diff_end", {"a": "Fragment", "b": "Fragment", "pos_a": "int", "pos_b": "int"}, returns="opt[dict{a:int,b:int}]",
         ensures=[f"(result is None) == (dend({A}, {B}, {LA}, {LB}) < 0)",
                  f"result is not None ==> result['a'] == pos_a - dend({A}, {B}, {LA}, {LB})",
                  f"result is not None ==> result['b'] == pos_b - dend({A}, {B}, {LA}, {LB})",
                  f"(result is None) == feq({A}, {B})"],
         decreases="wt(a)",
         loops={0: dict(invariant=["0 <= i_a", "0 <= i_b", f"i_a <= {LA}", f"i_b <= {LB}", f"{LA} - i_a == {LB} - i_b",
                                   "old(pos_a) - pos_a == old(pos_b) - pos_b",
                                   f"all_(i_a, {LA}, lambda j: neq({A}[j], {B}[j - i_a + i_b]))",
                                   f"(dend({A}, {B}, i_a, i_b) < 0) == (dend({A}, {B}, {LA}, {LB}) < 0)",
                                   f"dend({A}, {B}, i_a, i_b) >= 0 ==> old(pos_a) - pos_a + dend({A}, {B}, i_a, i_b) == dend({A}, {B}, {LA}, {LB})"],
                        decreases="i_a",
                        calls=[("pre-step", ["child_a.content.content", "0", "len(child_a.content.content)"]),
                               ("pre-step", ["child_b.content.content", "0", "len(child_b.content.content)"]),
                               ("dend-empty", ["child_a.content.content", "child_b.content.content"]),
                               ("doff-empty", ["child_a.content.content", "child_b.content.content"])]),
                1: dict(invariant=["0 <= same", "same <= min_size", "all_(0, same, lambda j: not unit_ne_end(units_a, units_b, j))",
                                   "old(pos_a) - pos_a == old(pos_b) - pos_b",
                                   f"dend({A}, {B}, i_a + 1, i_b + 1) >= 0 ==> old(pos_a) - pos_a - same + dend({A}, {B}, i_a + 1, i_b + 1) == dend({A}, {B}, {LA}, {LB})",
                                   f"(dend({A}, {B}, i_a + 1, i_b + 1) < 0) == (dend({A}, {B}, {LA}, {LB}) < 0)"],
                        decreases="min_size - same")},
         locals={"inner": "opt[dict{a:int,b:int}]"},
         calls=[("fsu-first", ["units_a", "units_b", "0", "same", "min_size"]), ("fsu-none", ["units_a", "units_b", "0", "same"]),
                ("feq-at", ["a.content", "b.content", "i_a"])],
         calls_func={"find_diff_end": [("tree-wf", ["a", "i_a"])]},
         props=P)
