"""Contracts for the JSON form of the eight step classes (C05): the published shape of every step."""
from pyvc.api import cls, contract

from . import classes  # noqa: F401
from . import transform_steps  # noqa: F401
from .transform_steps import FAS, FDS, FMS, FRS

P = ["C05"]
FM = "prosemirror/model/mark.py"
FR = "prosemirror/model/replace.py"
contract("prosemirror/utils.py", "deepcopy", {"x": "val"}, returns="val", ensures=["result == x"],
         trusted="copy.deepcopy returns a structurally equal copy that shares nothing mutable with its argument (the freshness is the frame obligation json-fresh of C10)", props=P)
contract(FM, "Mark.to_json", {"self": "Mark"}, returns="val", trusted="the mark's JSON form (type name + attrs); its round trip is checked by the bounded driver", props=P)
contract(FR, "Slice.to_json", {"self": "Slice"}, returns="opt[val]", ensures=["(result is None) == (self.content.size == 0)"],
         trusted="the slice's JSON form (content, openStart, openEnd); None exactly for a slice whose content is empty", props=P)

for C, name in (("AddMarkStep", "addMark"), ("RemoveMarkStep", "removeMark")):
    contract(FMS, f"{C}.to_json", {"self": C}, returns="dict{stepType:strconst,mark:val,from:int,to:int}",
             ensures=[f"result['stepType'] == '{name}'", "result['from'] == self.from_", "result['to'] == self.to"], props=P)
for C, name in (("AddNodeMarkStep", "addNodeMark"), ("RemoveNodeMarkStep", "removeNodeMark")):
    contract(FMS, f"{C}.to_json", {"self": C}, returns="dict{stepType:strconst,pos:int,mark:val}",
             ensures=[f"result['stepType'] == '{name}'", "result['pos'] == self.pos"], props=P)
contract(FAS, "AttrStep.to_json", {"self": "AttrStep"}, returns="dict{stepType:strconst,pos:int,attr:str,value:val}",
         ensures=["result['stepType'] == 'attr'", "result['pos'] == self.pos", "result['attr'] == self.attr", "result['value'] == self.value"], props=P)
contract(FDS, "DocAttrStep.to_json", {"self": "DocAttrStep"}, returns="dict{stepType:strconst,attr:str,value:val}",
         ensures=["result['stepType'] == 'docAttr'", "result['attr'] == self.attr", "result['value'] == self.value"], props=P)

# replace steps: the slice is present exactly when its content is non-empty (its own JSON then carries the open
# depths), the structure flag exactly when set -- independently of each other
HAS_SLICE = "self.slice.content.size != 0"
RS = "stepType:strconst,from:int,to:int"
RA = "stepType:strconst,from:int,to:int,gapFrom:int,gapTo:int,insert:int"
for C, name, base, extra in (("ReplaceStep", "replace", RS, ["result['from'] == self.from_", "result['to'] == self.to"]),
                              ("ReplaceAroundStep", "replaceAround", RA,
                               ["result['from'] == self.from_", "result['to'] == self.to", "result['gapFrom'] == self.gap_from", "result['gapTo'] == self.gap_to",
                                "result['insert'] == self.insert"])):
    common = [f"result['stepType'] == '{name}'"] + extra
    contract(FRS, f"{C}.to_json", {"self": C},
             cases=[dict(when=f"{HAS_SLICE} and self.structure", returns="dict{" + base + ",slice:opt[val],structure:bool}", ensures=common + ["result['slice'] is not None", "result['structure']"]),
                    dict(when=f"{HAS_SLICE} and not self.structure", returns="dict{" + base + ",slice:opt[val]}", ensures=common + ["result['slice'] is not None"]),
                    dict(when=f"not ({HAS_SLICE}) and self.structure", returns="dict{" + base + ",structure:bool}", ensures=common + ["result['structure']"]),
                    dict(when=f"not ({HAS_SLICE}) and not self.structure", returns="dict{" + base + "}", ensures=common)],
             locals={"json_data": "any"}, props=P)


# ---- decoding: from_json on exactly the record shapes to_json produces (a real JSON encode / decode is the
# identity on such plain records: assumed) gives back the integer / string / flag fields; marks and slices are
# rebuilt by Schema.mark_from_json / Slice.from_json (trusted here, round trip checked by the bounded driver)
FS_ = "prosemirror/model/schema.py"
cls("Schema", FS_, {})
contract(FS_, "Schema.mark_from_json", {"self": "Schema", "json_data": "val"}, returns="Mark", may_raise={"ValueError": "True"},
         trusted="Mark.from_json: the mark the JSON names (bounded: C05 driver)", props=P)
contract(FR, "Slice.from_json", {"schema": "Schema", "json_data": "opt[val]"}, returns="Slice", may_raise={"ValueError": "True"},
         ensures=["json_data is None ==> result == Slice.empty"],
         trusted="Slice.from_json: Slice.empty for a missing slice, otherwise the slice the JSON describes (bounded: C05 driver)", props=P)
OK_ONLY = {"ValueError": "False"}
for C in ("AddMarkStep", "RemoveMarkStep"):
    contract(FMS, f"{C}.from_json", {"schema": "Schema", "json_data": "dict{stepType:strconst,mark:val,from:int,to:int}"}, returns=C,
             may_raise={"ValueError": "True"}, ensures=["result.from_ == json_data['from']", "result.to == json_data['to']"], props=P)
for C in ("AddNodeMarkStep", "RemoveNodeMarkStep"):
    contract(FMS, f"{C}.from_json", {"schema": "Schema", "json_data": "dict{stepType:strconst,pos:int,mark:val}"}, returns=C,
             may_raise={"ValueError": "True"}, ensures=["result.pos == json_data['pos']"], props=P)
contract(FAS, "AttrStep.from_json", {"schema": "Schema", "json_data": "dict{stepType:strconst,pos:int,attr:str,value:val}"}, returns="AttrStep",
         ensures=["result.pos == json_data['pos']", "result.attr == json_data['attr']", "result.value == json_data['value']"], props=P)
contract(FDS, "DocAttrStep.from_json", {"schema": "Schema", "json_data": "dict{stepType:strconst,attr:str,value:val}"}, returns="DocAttrStep",
         ensures=["result.attr == json_data['attr']", "result.value == json_data['value']"], props=P)
for C, base, extra in (("ReplaceStep", RS, ["result.from_ == json_data['from']", "result.to == json_data['to']"]),
                       ("ReplaceAroundStep", RA, ["result.from_ == json_data['from']", "result.to == json_data['to']", "result.gap_from == json_data['gapFrom']",
                                                  "result.gap_to == json_data['gapTo']", "result.insert == json_data['insert']"])):
    for tag, kind, ens in (("slice+structure", base + ",slice:opt[val],structure:bool", ["result.structure == json_data['structure']"]),
                           ("slice", base + ",slice:opt[val]", ["not result.structure"]),
                           ("structure", base + ",structure:bool", ["result.structure == json_data['structure']", "result.slice == Slice.empty"]),
                           ("plain", base, ["not result.structure", "result.slice == Slice.empty"])):
        contract(FRS, f"{C}.from_json", {"schema": "Schema", "json_data": "dict{" + kind + "}"}, returns=C, alias=f"{C}.from_json[{tag}]",
                 may_raise={"ValueError": "True"}, ensures=extra + ens, props=P)
