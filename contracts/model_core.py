"""Contracts for prosemirror/model/fragment.py and the size/child accessors of node.py
(C02, C09; used by C01, C20)."""
import os

from pyvc.api import abstract, axiom, contract, invariant, lemma, spec_file

from . import classes  # noqa: F401
from .classes import FF, FN

spec_file(os.path.join(os.path.dirname(os.path.dirname(os.path.abspath(__file__))), "spec", "docspec.py"))

abstract("u16", ["str"], "int")
abstract("leaf_t", ["NodeType"], "bool")
abstract("atom_t", ["NodeType"], "bool")
abstract("same_markup_fn", ["Node", "Node"], "bool")
axiom("u16-nonneg", {"s": "str"}, "u16(s) >= 0 and (u16(s) == 0) == (len(s) == 0) and u16(s) >= len(s)",
      "A7: UTF-16 length of a string (every code point is one or two units)", triggers=["u16(s)"])
axiom("u16-additive", {"a": "str", "b": "str"}, "u16(a + b) == u16(a) + u16(b)",
      "A7: UTF-16 length is additive over concatenation", triggers=["u16(a + b)"])

# representation invariants: assumed for every fragment / node that is read, proved for every
# fragment that is constructed
invariant("Fragment", "self.size == pre(self.content, len(self.content))", "self.size >= 0")
invariant("Node", "self.content.size == pre(self.content.content, len(self.content.content))", "self.content.size >= 0")
axiom("text-is-leaf", {"t": "NodeType"}, "implies(t.is_text, leaf_t(t))", "the text node type has no content expression (NodeType.compile / ContentMatch.parse of an empty expression)",
      triggers=["leaf_t(t)"])
# trusted type invariant, stated globally: every node occupies at least one token (TextNode.__init__
# rejects empty text, a leaf is one token, any other node has an opening and a closing token)
axiom("node-size-pos", {"n": "Node"}, "nsize(n) >= 1", "type invariant of Node: empty text nodes cannot be constructed; node_size >= 1",
      triggers=["nsize(n)"])

P2 = ["C02", "C09"]
UT = "prosemirror/utils.py"

contract(UT, "text_length", {"text": "str"}, returns="int", ensures=["result == u16(text)"],
         trusted="A7: len(text.encode('utf-16-le')) // 2 is the UTF-16 length; the encode call is not modelled", props=P2)
contract(FN, "is_text", {"node": "Node"}, returns="bool", ensures=["result == node.type.is_text"], props=P2)
contract(FN, "Node.is_text", {"self": "Node"}, returns="bool", is_property=True, ensures=["result == self.type.is_text"], props=P2)
contract(FN, "Node.is_leaf", {"self": "Node"}, returns="bool", is_property=True, ensures=["result == leaf_t(self.type)"], props=P2)
contract("prosemirror/model/schema.py", "NodeType.is_leaf", {"self": "NodeType"}, returns="bool", is_property=True,
         ensures=["result == leaf_t(self)"], trusted="definition of leaf_t: content_match == ContentMatch.empty", props=P2)
# atoms: nothing under contract may treat `atom` as `has no inside` (an inline atom can have content)
contract(FN, "Node.is_atom", {"self": "Node"}, returns="bool", is_property=True, ensures=["result == atom_t(self.type)"], props=P2 + ["C09", "C03"])
contract("prosemirror/model/schema.py", "NodeType.is_atom", {"self": "NodeType"}, returns="bool", is_property=True,
         ensures=["result == atom_t(self)", "leaf_t(self) ==> result"], trusted="definition of atom_t: is_leaf or spec['atom'] (schema spec dictionaries are outside the subset)", props=P2 + ["C09", "C03"])
contract(FN, "Node.node_size", {"self": "Node"}, returns="int", is_property=True,
         body_requires=["not self.type.is_text"],  # TextNode overrides it
         ensures=["result == nsize(self)"], props=P2)
contract(FN, "TextNode.node_size", {"self": "TextNode"}, returns="int", is_property=True,
         body_requires=["self.type.is_text"], ensures=["result == nsize(self)"], props=P2)
contract(FN, "Node.child_count", {"self": "Node"}, returns="int", is_property=True, ensures=["result == len(self.content.content)"], props=P2)
contract(FN, "Node.child", {"self": "Node", "index": "int"}, returns="Node",
         requires=["0 <= index", "index < len(self.content.content)"], ensures=["result == self.content.content[index]"], props=P2)
contract(FN, "Node.maybe_child", {"self": "Node", "index": "int"}, returns="opt[Node]",
         ensures=["(result is None) == (index < 0 or index >= len(self.content.content))",
                  "result is not None ==> result == self.content.content[index]"], props=P2 + ["C12"])
contract(FN, "Node.first_child", {"self": "Node"}, returns="opt[Node]", is_property=True,
         ensures=["(result is None) == (len(self.content.content) == 0)", "result is not None ==> result == self.content.content[0]"], props=P2)
contract(FN, "Node.last_child", {"self": "Node"}, returns="opt[Node]", is_property=True,
         ensures=["(result is None) == (len(self.content.content) == 0)",
                  "result is not None ==> result == self.content.content[len(self.content.content) - 1]"], props=P2)

# ---------------------------------------------------------------- Fragment
contract(FF, "Fragment.__init__", {"self": "Fragment", "content": "list[Node]", "size": "opt[int]"},
         ensures=["self.content == content", "size is not None ==> self.size == size", "size is None ==> self.size == pre(content, len(content))"],
         loops={0: dict(invariant=["_acc0 == pre(content, _i0)"])},
         props=P2)
contract(FF, "Fragment.child_count", {"self": "Fragment"}, returns="int", is_property=True, ensures=["result == len(self.content)"], props=P2)
contract(FF, "Fragment.child", {"self": "Fragment", "index": "int"}, returns="Node",
         requires=["0 <= index", "index < len(self.content)"], ensures=["result == self.content[index]"], props=P2)
contract(FF, "Fragment.maybe_child", {"self": "Fragment", "index": "int"}, returns="opt[Node]",
         ensures=["(result is None) == (index < 0 or index >= len(self.content))",
                  "result is not None ==> result == self.content[index]"], props=P2 + ["C12"])
contract(FF, "Fragment.first_child", {"self": "Fragment"}, returns="opt[Node]", is_property=True,
         ensures=["(result is None) == (len(self.content) == 0)", "result is not None ==> result == self.content[0]"], props=P2)
contract(FF, "Fragment.last_child", {"self": "Fragment"}, returns="opt[Node]", is_property=True,
         ensures=["(result is None) == (len(self.content) == 0)", "result is not None ==> result == self.content[len(self.content) - 1]"], props=P2)

lemma("pre-step", {"c": "list[Node]", "i": "int", "j": "int"},
      requires=["0 <= i", "i <= j", "j <= len(c)"],
      ensures=["pre(c, i) + (j - i) <= pre(c, j)"],
      induct="j", triggers=["pre(c, i)", "pre(c, j)"], props=P2)

contract(FF, "Fragment.find_index", {"self": "Fragment", "pos": "int", "round": "int"}, returns="dict{index:int,offset:int}",
         raises={"ValueError": "pos < 0 or pos > self.size"},
         ensures=["0 <= result['index']", "result['index'] <= len(self.content)",
                  "result['offset'] == pre(self.content, result['index'])",
                  # the position is at this child boundary, or strictly inside the child before /
                  # after it according to the rounding direction
                  "result['offset'] == pos or (round <= 0 and result['index'] < len(self.content) and result['offset'] < pos and pos < pre(self.content, result['index'] + 1))"
                  " or (round > 0 and result['index'] >= 1 and pre(self.content, result['index'] - 1) < pos and pos < result['offset'])"],
         inline=["ret_index"],
         loops={0: dict(invariant=["0 <= i", "cur_pos == pre(self.content, i)", "cur_pos < pos", "i < len(self.content) or cur_pos >= self.size",
                                   "pos < self.size", "pos > 0"],
                        decreases="self.size - cur_pos")},
         uses=["pre-step"], props=P2)

# ---- lemmas about pre() under list operations (each proved by induction, used as ghost calls)
NS1 = "all_(0, len(c), lambda q: nsize(c[q]) >= 1)"
lemma("pre-nonneg", {"c": "list[Node]", "k": "int"},
      requires=["0 <= k", "k <= len(c)"],
      ensures=["pre(c, k) >= 0"], induct="k", triggers=["pre(c, k)"], props=P2)
lemma("pre-prefix", {"c": "list[Node]", "d": "list[Node]", "k": "int"},
      requires=["0 <= k", "k <= len(c)", "k <= len(d)", "all_(0, k, lambda j: c[j] == d[j])"],
      ensures=["pre(c, k) == pre(d, k)"], induct="k", props=P2)
lemma("pre-concat-left", {"a": "list[Node]", "b": "list[Node]", "k": "int"},
      requires=["0 <= k", "k <= len(a)"],
      ensures=["pre(a + b, k) == pre(a, k)"], induct="k", props=P2)
lemma("pre-concat", {"a": "list[Node]", "b": "list[Node]", "k": "int"},
      requires=["0 <= k", "k <= len(b)"],
      ensures=["pre(a + b, len(a) + k) == pre(a, len(a)) + pre(b, k)"],
      induct="k", calls=[("pre-concat-left", ["a", "b", "len(a)"])], props=P2)
lemma("pre-prefix-q", {"c": "list[Node]", "d": "list[Node]", "k": "int"},
      requires=["0 <= k", "k <= len(c)", "k <= len(d)", "all_(0, k, lambda j: c[j] == d[j])"],
      ensures=["pre(c, k) == pre(d, k)"], induct="k", triggers=["pre(c, k)", "pre(d, k)"], props=P2)
lemma("pre-update", {"c": "list[Node]", "i": "int", "x": "Node", "k": "int"},
      requires=["0 <= i", "i < len(c)", "0 <= k", "k <= len(c)"],
      ensures=["pre(c[0:i] + [x] + c[i + 1:len(c)], k) == pre(c, k) + (nsize(x) - nsize(c[i]) if k > i else 0)"],
      induct="k", props=P2)

axiom("fragment-empty", {}, "len(Fragment.empty.content) == 0 and Fragment.empty.size == 0",
      "module-level singleton Fragment.empty = Fragment([], 0); nothing mutates it (C10 frame obligations)")

contract(FF, "Fragment.cut_by_index", {"self": "Fragment", "from_": "int", "to": "opt[int]"}, returns="Fragment", uses=["pre-nonneg"],
         requires=["0 <= from_", "to is None or (from_ <= to and to <= len(self.content))", "from_ <= len(self.content)"],
         ensures=["to is not None ==> result.content == self.content[from_:to] or (from_ == to and len(result.content) == 0)",
                  "to is None ==> result.content == self.content[from_:len(self.content)]"],
         props=P2)
contract(FF, "Fragment.replace_child", {"self": "Fragment", "index": "int", "node": "Node"}, returns="Fragment",
         requires=["0 <= index", "index < len(self.content)"],
         ensures=["self.content[index] == node ==> result == self",
                  "self.content[index] != node ==> result.content == self.content[0:index] + [node] + self.content[index + 1:len(self.content)]",
                  "result.size == self.size + nsize(node) - nsize(self.content[index])",
                  "len(result.content) == len(self.content)", "result.content[index] == node",
                  "all_(0, len(self.content), lambda j: implies(j != index, result.content[j] == self.content[j]))"],
         calls=[("pre-update", ["self.content", "index", "node", "len(self.content)"])],
         uses=["pre-nonneg"], props=P2)
contract(FF, "Fragment.add_to_start", {"self": "Fragment", "node": "Node"}, returns="Fragment",
         ensures=["result.content == [node] + self.content", "result.size == self.size + nsize(node)"],
         calls=[("pre-concat", ["[node]", "self.content", "len(self.content)"])],
         uses=["pre-nonneg"], props=P2)
contract(FF, "Fragment.add_to_end", {"self": "Fragment", "node": "Node"}, returns="Fragment",
         ensures=["result.content == self.content + [node]", "result.size == self.size + nsize(node)"],
         calls=[("pre-concat", ["self.content", "[node]", "1"])],
         uses=["pre-nonneg"], props=P2)


def _register_class_attrs():
    import z3

    from pyvc.kinds import VObj, Obj
    from pyvc.symexec import CLASS_ATTRS

    # Fragment.empty: a distinguished object; its fields are constrained by the axiom below
    e = z3.Const("Fragment.empty", Obj)
    CLASS_ATTRS["Fragment.empty"] = lambda: VObj("Fragment", e)


try:
    _register_class_attrs()
except ImportError:
    pass

# simple forwarding properties of Node
for _p, _e in (("inline_content", "self.type.inline_content"), ("is_block", "self.type.is_block"), ("is_textblock", "self.type.is_block and self.type.inline_content"),
               ("is_inline", "not self.type.is_block")):
    contract(FN, f"Node.{_p}", {"self": "Node"}, returns="bool", is_property=True, ensures=[f"result == ({_e})"],
             trusted="one-line forwarding to the node type (NodeType.is_textblock / is_inline are themselves properties)" if _p in ("is_textblock", "is_inline") else None,
             props=P2)
