"""Contracts for prosemirror/model/mark.py and the mark-related parts of schema.py (C14; used by C11, C13)."""
import os

from pyvc.api import contract, lemma, spec_file

from . import classes  # noqa: F401

FM = "prosemirror/model/mark.py"
FS = "prosemirror/model/schema.py"
spec_file(os.path.join(os.path.dirname(os.path.dirname(os.path.abspath(__file__))), "spec", "markspec.py"))


P = ["C14"]

contract(FM, "Mark.eq", {"self": "Mark", "other": "Mark"}, returns="bool",
         ensures=["result == meq(self, other)"], props=P)

contract(FS, "MarkType.excludes", {"self": "MarkType", "other": "MarkType"}, returns="bool",
         ensures=["result == excl(self, other)"],
         loops={0: dict(invariant=["first_name(self.excluded, other.name, 0) == first_name(self.excluded, other.name, _i0)", "not _acc0"])},
         props=P)

contract(FM, "Mark.is_in_set", {"self": "Mark", "set": "list[Mark]"}, returns="bool",
         ensures=["result == (first_eq(self, set, 0) >= 0)"],
         loops={0: dict(invariant=["first_eq(self, set, 0) == first_eq(self, set, _i0)", "not _acc0"])},
         props=P)

contract(FM, "Mark.remove_from_set", {"self": "Mark", "set": "list[Mark]"}, returns="list[Mark]",
         ensures=["result == filt_ne(self, set, len(set))"],
         locals={"_acc0": "list[Mark]"},
         loops={0: dict(invariant=["_acc0 == filt_ne(self, set, _i0)"])},
         props=P + ["C10"])

contract(FM, "Mark.add_to_set", {"self": "Mark", "set": "list[Mark]"}, returns="list[Mark]",
         ensures=["result == add_result(self, set)"],
         loops={0: dict(invariant=[
             "nodec(self, set, i)",
             "placed == placed(self, set, i)",
             "copy is None ==> addw(self, set, i) == set[0:i] and not placed",
             "copy is not None ==> copy == addw(self, set, i)",
         ])},
         locals={"copy": "opt[list[Mark]]"},
         uses=["decisive-at"],
         props=P + ["C11", "C13"])

contract(FM, "Mark.same_set", {"a": "list[Mark]", "b": "list[Mark]"}, returns="bool",
         ensures=["result == (len(a) == len(b) and first_ne(a, b, 0) < 0)"],
         loops={0: dict(invariant=["first_ne(a, b, 0) == first_ne(a, b, _i0)", "_acc0", "len(a) == len(b)"])},
         uses=["first-ne-refl"],
         props=P)

lemma("first-ne-refl", {"a": "list[Mark]", "k": "int"},
      requires=["0 <= k", "k <= len(a)"],
      ensures=["first_ne(a, a, k) < 0"],
      induct="k", step=1, decreases="len(a) - k", triggers=["first_ne(a, a, k)"], props=P)

lemma("nodec-antitone", {"me": "Mark", "s": "list[Mark]", "k": "int", "n": "int"},
      requires=["0 <= k", "k <= n", "n <= len(s)", "not nodec(me, s, k)"],
      ensures=["not nodec(me, s, n)"],
      induct="n", triggers=["nodec(me, s, k)", "nodec(me, s, n)"], props=P)

lemma("decisive-at", {"me": "Mark", "s": "list[Mark]", "j": "int", "n": "int"},
      requires=["0 <= j", "j < n", "n <= len(s)", "nodec(me, s, j)",
                "meq(me, s[j]) or (not excl(me.type, s[j].type) and excl(s[j].type, me.type))"],
      ensures=["not nodec(me, s, n)"],
      induct="n", triggers=["nodec(me, s, j)", "nodec(me, s, n)"], props=P)

lemma("all-allowed-first", {"nt": "NodeType", "s": "list[Mark]", "k": "int"},
      requires=["nt.mark_set is None", "0 <= k", "k <= len(s)"],
      ensures=["first_disallowed(nt, s, k) < 0"],
      induct="k", step=1, decreases="len(s) - k", triggers=["first_disallowed(nt, s, k)"], props=P)

lemma("all-allowed-filter", {"nt": "NodeType", "s": "list[Mark]", "k": "int"},
      requires=["nt.mark_set is None", "0 <= k", "k <= len(s)"],
      ensures=["filt_allowed(nt, s, k) == s[0:k]"],
      induct="k", triggers=["filt_allowed(nt, s, k)"], props=P)

contract(FS, "MarkType.remove_from_set", {"self": "MarkType", "set_": "list[Mark]"}, returns="list[Mark]",
         ensures=["result == filt_type(self, set_, len(set_))"],
         locals={"_acc0": "list[Mark]"},
         loops={0: dict(invariant=["_acc0 == filt_type(self, set_, _i0)"])},
         props=P)

contract(FS, "MarkType.is_in_set", {"self": "MarkType", "set": "list[Mark]"}, returns="opt[Mark]",
         ensures=["(result is None) == (first_of_type(self, set, 0) < 0)",
                  "result is not None ==> result == set[first_of_type(self, set, 0)]"],
         locals={"_acc0": "opt[Mark]"},
         loops={0: dict(invariant=["first_of_type(self, set, 0) == first_of_type(self, set, _i0)", "_acc0 is None"])},
         props=P)

contract(FS, "NodeType.allows_mark_type", {"self": "NodeType", "mark_type": "MarkType"}, returns="bool",
         ensures=["result == allows(self, mark_type)"], props=P)

contract(FS, "NodeType.allows_marks", {"self": "NodeType", "marks": "list[Mark]"}, returns="bool",
         ensures=["result == (first_disallowed(self, marks, 0) < 0)"],
         loops={0: dict(invariant=["first_disallowed(self, marks, 0) == first_disallowed(self, marks, _i0)", "_acc0"])},
         uses=["all-allowed-first"],
         props=P + ["C07"])

contract(FS, "NodeType.allowed_marks", {"self": "NodeType", "marks": "list[Mark]"}, returns="list[Mark]",
         ensures=["result == filt_allowed(self, marks, len(marks))"],
         loops={0: dict(invariant=[
             "self.mark_set is not None",
             "copy is None ==> filt_allowed(self, marks, _i0) == marks[0:_i0]",
             "copy is not None ==> copy == filt_allowed(self, marks, _i0)",
         ])},
         locals={"copy": "opt[list[Mark]]"},
         uses=["all-allowed-filter"],
         props=P + ["C11"])


def _register_class_attrs():
    import z3

    from pyvc.kinds import VSeq, sort_of
    from pyvc.symexec import CLASS_ATTRS

    CLASS_ATTRS["Mark.none"] = lambda: VSeq("list[Mark]", z3.Empty(sort_of("list[Mark]")))


try:
    _register_class_attrs()
except ImportError:
    pass


# properties that rest on the proved mark algebra (their own checks list these functions as their deductive part)
from pyvc import api as _api

for _k in ("Mark.add_to_set", "Mark.remove_from_set", "Mark.is_in_set", "Mark.eq", "MarkType.is_in_set", "MarkType.remove_from_set", "MarkType.excludes", "NodeType.allows_mark_type"):
    if "C13" not in _api.CONTRACTS[_k].props:
        _api.CONTRACTS[_k].props.append("C13")
for _l in ("first-ne-refl", "nodec-antitone", "decisive-at"):
    if _l in _api.LEMMAS and "C13" not in _api.LEMMAS[_l].props:
        _api.LEMMAS[_l].props.append("C13")
