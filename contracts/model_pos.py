"""Contracts around resolved positions and isolating boundaries (C18; accessors used by C09, C12).

The ResolvedPos accessors are *trusted* here (their arithmetic against the flat token picture is
checked by the bounded C09 driver); what is proved are the functions that use them."""
import os

from pyvc.api import abstract, axiom, cls, contract, invariant, lemma, spec_file

from . import classes  # noqa: F401
from . import model_content  # noqa: F401
from . import model_core  # noqa: F401
from .classes import FR

FP = "prosemirror/model/resolvedpos.py"
FTRR = "prosemirror/transform/replace.py"
FSTR = "prosemirror/transform/structure.py"
spec_file(os.path.join(os.path.dirname(os.path.dirname(os.path.abspath(__file__))), "spec", "posspec.py"))

cls("ResolvedPos", FP, {"pos": "int", "path": "list3[Node,int,int]", "depth": "int", "parent_offset": "int"})
cls("NodeRange", FP, {"from_": "ResolvedPos", "to": "ResolvedPos", "depth": "int"})

P9 = ["C09", "C18", "C12"]
PATH = "self.path"
K = lambda d: f"p3a({PATH}, {d}).content.content"  # noqa: E731  children of the ancestor at depth d

# representation invariant of a resolved position (RP): proved where ResolvedPos.resolve constructs the
# object, assumed for every ResolvedPos that is read, and evaluated natively at every construction
invariant("ResolvedPos",
          "self.depth >= 0", f"len3({PATH}) == self.depth + 1",
          f"all_(0, self.depth + 1, lambda d: 0 <= p3b({PATH}, d) and p3b({PATH}, d) <= len({K('d')}))",
          # every level but the last points at an existing child, and that child is the next level's node
          f"all_(0, self.depth, lambda d: p3b({PATH}, d) < len({K('d')}) and p3a({PATH}, d + 1) == {K('d')}[p3b({PATH}, d)])",
          # the recorded offsets are prefix sums of child sizes: the flat token position of the child boundary
          f"p3c({PATH}, 0) == pre({K(0)}, p3b({PATH}, 0))",
          f"all_(1, self.depth + 1, lambda d: p3c({PATH}, d) == p3c({PATH}, d - 1) + 1 + pre({K('d')}, p3b({PATH}, d)))",
          # the position is at that boundary, or strictly inside the text child that starts there
          f"self.pos >= p3c({PATH}, self.depth)",
          f"self.pos == p3c({PATH}, self.depth) or (p3b({PATH}, self.depth) < len({K('self.depth')}) and {K('self.depth')}[p3b({PATH}, self.depth)].type.is_text"
          f" and self.pos - p3c({PATH}, self.depth) < nsize({K('self.depth')}[p3b({PATH}, self.depth)]))",
          f"self.parent_offset == self.pos - (0 if self.depth == 0 else p3c({PATH}, self.depth - 1) + 1)",
          # no level below the top is a text node (resolve stops before descending into text)
          f"all_(1, self.depth + 1, lambda d: not p3a({PATH}, d).type.is_text)",
          # ... nor a leaf (a position strictly inside a node means the node has an inside)
          f"all_(1, self.depth + 1, lambda d: not leaf_t(p3a({PATH}, d).type))")

DEPTH_OK = ["0 <= depth", "depth <= self.depth"]
ODEPTH_OK = ["depth is None or (0 <= depth and depth <= self.depth)"]
DD = "(self.depth if depth is None else depth)"
contract(FP, "ResolvedPos.resolve_depth", {"self": "ResolvedPos", "val": "opt[int]"}, returns="int",
         ensures=["result == (self.depth if val is None else (self.depth + val if val < 0 else val))"], props=P9)
contract(FP, "ResolvedPos.node", {"self": "ResolvedPos", "depth": "int"}, returns="Node", requires=DEPTH_OK, ensures=["result == rp_node(self, depth)"], props=P9)
contract(FP, "ResolvedPos.index", {"self": "ResolvedPos", "depth": "opt[int]"}, returns="int", requires=ODEPTH_OK,
         ensures=[f"result == rp_index(self, {DD})", "0 <= result", f"result <= len(rp_node(self, {DD}).content.content)"], props=P9)
contract(FP, "ResolvedPos.text_offset", {"self": "ResolvedPos"}, returns="int", is_property=True,
         ensures=["result == rp_toff(self)", "result >= 0"], props=P9)
contract(FP, "ResolvedPos.index_after", {"self": "ResolvedPos", "depth": "int"}, returns="int", requires=DEPTH_OK,
         ensures=["result == rp_index_after(self, depth)", "rp_index(self, depth) <= result", "result <= len(rp_node(self, depth).content.content)"], props=P9)
contract(FP, "ResolvedPos.start", {"self": "ResolvedPos", "depth": "opt[int]"}, returns="int", requires=ODEPTH_OK,
         ensures=[f"result == rp_start(self, {DD})"], props=P9)
contract(FP, "ResolvedPos.end", {"self": "ResolvedPos", "depth": "opt[int]"}, returns="int", requires=ODEPTH_OK,
         ensures=[f"result == rp_end(self, {DD})"], props=P9)
contract(FP, "ResolvedPos.before", {"self": "ResolvedPos", "depth": "opt[int]"}, returns="int",
         requires=["depth is None or (0 <= depth and depth <= self.depth + 1)"],
         raises={"ValueError": f"{DD} == 0"},
         # position right before the ancestor at that depth (for depth+1: the position itself)
         ensures=[f"result == (self.pos if {DD} == self.depth + 1 else p3c(self.path, {DD} - 1))"], props=P9)
contract(FP, "ResolvedPos.after", {"self": "ResolvedPos", "depth": "opt[int]"}, returns="int",
         requires=["depth is None or (0 <= depth and depth <= self.depth + 1)"],
         raises={"ValueError": f"{DD} == 0"},
         ensures=[f"result == (self.pos if {DD} == self.depth + 1 else p3c(self.path, {DD} - 1) + nsize(p3a(self.path, {DD})))"], props=P9)
contract(FP, "ResolvedPos.parent", {"self": "ResolvedPos"}, returns="Node", is_property=True, ensures=["result == rp_node(self, self.depth)"], props=P9)
contract(FP, "ResolvedPos.doc", {"self": "ResolvedPos"}, returns="Node", is_property=True, ensures=["result == rp_node(self, 0)"], props=P9)
contract(FP, "ResolvedPos.pos_at_index", {"self": "ResolvedPos", "index": "int", "depth": "opt[int]"}, returns="int",
         requires=ODEPTH_OK + [f"0 <= index", f"index <= len(rp_node(self, {DD}).content.content)"],
         ensures=[f"result == rp_start(self, {DD}) + pre(rp_node(self, {DD}).content.content, index)"],
         loops={0: dict(invariant=["depth is not None", "pos == rp_start(self, depth) + pre(node.content.content, i)", "node == rp_node(self, depth)"])},
         props=P9)
contract(FP, "ResolvedPos.shared_depth", {"self": "ResolvedPos", "pos": "int"}, returns="int",
         ensures=["0 <= result", "result <= self.depth",
                  "result > 0 ==> rp_start(self, result) <= pos and pos <= rp_end(self, result)",
                  "all_(result + 1, self.depth + 1, lambda k: not (rp_start(self, k) <= pos and pos <= rp_end(self, k)))"],
         loops={0: dict(invariant=["0 <= depth", "depth <= self.depth",
                                   "all_(depth + 1, self.depth + 1, lambda k: not (rp_start(self, k) <= pos and pos <= rp_end(self, k)))"],
                        decreases="depth")}, props=P9)
contract(FP, "ResolvedPos.same_parent", {"self": "ResolvedPos", "other": "ResolvedPos"}, returns="bool",
         ensures=["result == (rp_start(self, self.depth) == rp_start(other, other.depth))"], props=P9)

abstract("rdepth", ["Node", "int"], "int")
abstract("ridx", ["Node", "int", "int"], "int")
# the shape resolve finds for (doc, pos) is given a name, so that callers can speak about it before resolving
RSHAPE = ["result.depth == rdepth({d}, pos)", "all_(0, result.depth + 1, lambda k: rp_index(result, k) == ridx({d}, pos, k))"]
contract(FP, "ResolvedPos.resolve", {"doc": "Node", "pos": "int"}, returns="ResolvedPos",
         raises={"ValueError": "pos < 0 or pos > doc.content.size"},
         ensures=["result.pos == pos", "rp_node(result, 0) == doc"],
         defines=[c.format(d="doc") for c in RSHAPE],
         loops={0: dict(invariant=[
             "0 <= parent_offset", "parent_offset <= node.content.size", "start + parent_offset == pos",
             "len3(path) == 0 ==> node == doc and start == 0",
             "len3(path) > 0 ==> p3b(path, len3(path) - 1) < len(p3a(path, len3(path) - 1).content.content)"
             " and node == p3a(path, len3(path) - 1).content.content[p3b(path, len3(path) - 1)]"
             " and start == p3c(path, len3(path) - 1) + 1 and not node.type.is_text and p3a(path, 0) == doc",
             "all_(0, len3(path), lambda d: 0 <= p3b(path, d) and p3b(path, d) <= len(p3a(path, d).content.content))",
             "all_(0, len3(path) - 1, lambda d: p3b(path, d) < len(p3a(path, d).content.content) and p3a(path, d + 1) == p3a(path, d).content.content[p3b(path, d)])",
             "len3(path) > 0 ==> p3c(path, 0) == pre(p3a(path, 0).content.content, p3b(path, 0))",
             "all_(1, len3(path), lambda d: p3c(path, d) == p3c(path, d - 1) + 1 + pre(p3a(path, d).content.content, p3b(path, d)))",
             "all_(1, len3(path), lambda d: not p3a(path, d).type.is_text)",
             "all_(1, len3(path), lambda d: not leaf_t(p3a(path, d).type))",
             "len3(path) > 0 ==> not leaf_t(node.type)",
         ], decreases="parent_offset")},
         locals={"path": "list3[Node,int,int]"},
         uses=["pre-nonneg"],
         props=P9)

contract(FP, "NodeRange.parent", {"self": "NodeRange"}, returns="Node", is_property=True, requires=["0 <= self.depth", "self.depth <= self.from_.depth"],
         ensures=["result == rp_node(self.from_, self.depth)"], props=P9)
contract(FP, "NodeRange.start_index", {"self": "NodeRange"}, returns="int", is_property=True, requires=["0 <= self.depth", "self.depth <= self.from_.depth"],
         ensures=["result == rp_index(self.from_, self.depth)", "0 <= result"], props=P9)
contract(FP, "NodeRange.end_index", {"self": "NodeRange"}, returns="int", is_property=True, requires=["0 <= self.depth", "self.depth <= self.to.depth"],
         ensures=["result == rp_index_after(self.to, self.depth)", "result <= len(rp_node(self.to, self.depth).content.content)"], props=P9)
contract(FP, "NodeRange.start", {"self": "NodeRange"}, returns="int", is_property=True, requires=["0 <= self.depth", "self.depth <= self.from_.depth"],
         ensures=["result == (self.from_.pos if self.depth == self.from_.depth else p3c(self.from_.path, self.depth))"], props=P9)
contract(FP, "NodeRange.end", {"self": "NodeRange"}, returns="int", is_property=True, requires=["0 <= self.depth", "self.depth <= self.to.depth"],
         ensures=["result == (self.to.pos if self.depth == self.to.depth else p3c(self.to.path, self.depth) + nsize(p3a(self.to.path, self.depth + 1)))"], props=P9)

P18 = ["C18"]

# ---- covered_depths: an isolating ancestor stops the expansion
contract(FTRR, "covered_depths", {"from__": "ResolvedPos", "to_": "ResolvedPos"}, returns="list[int]",
         ensures=[
             "all_(0, len(result), lambda q: 0 <= result[q] and result[q] <= min(from__.depth, to_.depth))",
             # every covered depth, and every depth between it and the innermost common one, is free of isolating nodes on both sides
             "all_(0, len(result), lambda q: all_(result[q], min(from__.depth, to_.depth) + 1, lambda k: not iso_at(from__, k) and not iso_at(to_, k)))",
         ],
         loops={0: dict(invariant=[
             "min_depth == min(from__.depth, to_.depth)",
             "all_(d + 1, min_depth + 1, lambda k: not iso_at(from__, k) and not iso_at(to_, k))",
             "all_(0, len(result), lambda q: d < result[q] and result[q] <= min_depth)",
             "all_(0, len(result), lambda q: all_(result[q], min_depth + 1, lambda k: not iso_at(from__, k) and not iso_at(to_, k)))",
         ])},
         locals={"result": "list[int]"},
         props=P18 + ["C11"])

# ---- Slice.max_open: with open_isolating=False no isolating node is opened on either spine
lemma("first-child-smaller", {"n": "Node"},
      requires=["not n.type.is_text", "not leaf_t(n.type)", "len(n.content.content) > 0", "n.content.size == pre(n.content.content, len(n.content.content))"],
      ensures=["nsize(n.content.content[0]) < nsize(n)", "nsize(n.content.content[len(n.content.content) - 1]) < nsize(n)"],
      calls=[("pre-step", ["n.content.content", "1", "len(n.content.content)"]), ("pre-step", ["n.content.content", "0", "len(n.content.content) - 1"])],
      terms=["pre(n.content.content, 1)", "pre(n.content.content, 0)", "pre(n.content.content, len(n.content.content))", "pre(n.content.content, len(n.content.content) - 1)"],
      props=P18)

contract(FR, "Slice.max_open", {"fragment": "Fragment", "open_isolating": "bool"}, returns="Slice",
         ensures=["result.content == fragment", "result.open_start >= 0", "result.open_end >= 0",
                  "not open_isolating ==> all_(0, result.open_start, lambda k: not spec_isolating(spine_first(fragment, k).type))",
                  "not open_isolating ==> all_(0, result.open_end, lambda k: not spec_isolating(spine_last(fragment, k).type))"],
         loops={0: dict(invariant=["open_start >= 0", "open_end == 0",
                                   "n is not None ==> len(fragment.content) > 0 and n == spine_first(fragment, open_start)",
                                   "not open_isolating ==> all_(0, open_start, lambda k: not spec_isolating(spine_first(fragment, k).type))"],
                        decreases="0 if n is None else nsize(n)",
                        calls=[("first-child-smaller", ["spine_first(fragment, open_start - 1)"])]),
                1: dict(invariant=["open_start >= 0", "open_end >= 0",
                                   "not open_isolating ==> all_(0, open_start, lambda k: not spec_isolating(spine_first(fragment, k).type))",
                                   "n is not None ==> len(fragment.content) > 0 and n == spine_last(fragment, open_end)",
                                   "not open_isolating ==> all_(0, open_end, lambda k: not spec_isolating(spine_last(fragment, k).type))"],
                        decreases="0 if n is None else nsize(n)",
                        calls=[("first-child-smaller", ["spine_last(fragment, open_end - 1)"])])},
         locals={"n": "opt[Node]"},
         props=P18)

# ---- can_cut / lift_target: a returned depth is reached only through non-isolating ancestors
contract(FSTR, "can_cut", {"node": "Node", "start": "int", "end": "int"}, returns="bool",
         requires=["0 <= start", "start <= end", "end <= len(node.content.content)"],
         may_raise={"ValueError": "True"},
         ensures=["result == ((start == 0 or replace_ok(node.type, node.content.content, start, len(node.content.content), Fragment.empty.content, 0, 0))"
                  " and (end == len(node.content.content) or replace_ok(node.type, node.content.content, 0, end, Fragment.empty.content, 0, 0)))"],
         props=["C12"])

contract(FSTR, "lift_target", {"range_": "NodeRange"}, returns="opt[int]",
         requires=["0 <= range_.depth", "range_.depth <= range_.from_.depth", "range_.depth <= range_.to.depth",
                   "rp_index(range_.from_, range_.depth) <= rp_index_after(range_.to, range_.depth)",
                   # the two ends of a block range share their ancestors down to its depth
                   "all_(0, range_.depth + 1, lambda k: rp_node(range_.from_, k) == rp_node(range_.to, k) and rp_index(range_.from_, k) <= rp_index_after(range_.to, k))"],
         may_raise={"ValueError": "True"},
         ensures=["result is not None ==> 0 <= result and result < range_.depth",
                  # lifting never crosses an isolating boundary: every ancestor strictly below the target down to the range's parent is not isolating
                  "result is not None ==> all_(result + 1, range_.depth + 1, lambda k: not iso_at(range_.from_, k))"],
         loops={0: dict(invariant=["0 <= depth", "depth <= range_.depth",
                                   "all_(depth + 1, range_.depth + 1, lambda k: not iso_at(range_.from_, k))"],
                        decreases="depth")},
         props=P18 + ["C12"])
