"""Contracts around resolved positions and isolating boundaries (C18; accessors used by C09, C12).

The ResolvedPos accessors are *trusted* here (their arithmetic against the flat token picture is
checked by the bounded C09 driver); what is proved are the functions that use them."""
import os

from pyvc.api import abstract, axiom, cls, contract, lemma, spec_file

from . import classes  # noqa: F401
from . import model_content  # noqa: F401
from . import model_core  # noqa: F401
from .classes import FR

FP = "prosemirror/model/resolvedpos.py"
FTRR = "prosemirror/transform/replace.py"
FSTR = "prosemirror/transform/structure.py"
spec_file(os.path.join(os.path.dirname(os.path.dirname(os.path.abspath(__file__))), "spec", "posspec.py"))

cls("ResolvedPos", FP, {"pos": "int", "depth": "int", "parent_offset": "int"})
cls("NodeRange", FP, {"from_": "ResolvedPos", "to": "ResolvedPos", "depth": "int"})
abstract("rp_node", ["ResolvedPos", "int"], "Node")
abstract("rp_index", ["ResolvedPos", "int"], "int")
abstract("rp_start", ["ResolvedPos", "int"], "int")
abstract("rp_end", ["ResolvedPos", "int"], "int")
abstract("rp_index_after", ["ResolvedPos", "int"], "int")

T = "C09 (bounded): accessor arithmetic against the flat token picture; trusted here"
DEPTH_OK = ["0 <= depth", "depth <= self.depth"]
contract(FP, "ResolvedPos.node", {"self": "ResolvedPos", "depth": "int"}, returns="Node", requires=DEPTH_OK, ensures=["result == rp_node(self, depth)"], trusted=T, props=["C18"])
contract(FP, "ResolvedPos.index", {"self": "ResolvedPos", "depth": "opt[int]"}, returns="int",
         requires=["depth is None or (0 <= depth and depth <= self.depth)"],
         ensures=["result == rp_index(self, self.depth if depth is None else depth)", "0 <= result",
                  "result <= len(rp_node(self, self.depth if depth is None else depth).content.content)"], trusted=T, props=["C18"])
contract(FP, "ResolvedPos.index_after", {"self": "ResolvedPos", "depth": "int"}, returns="int", requires=DEPTH_OK,
         ensures=["result == rp_index_after(self, depth)", "rp_index(self, depth) <= result", "result <= len(rp_node(self, depth).content.content)"], trusted=T, props=["C18"])
contract(FP, "ResolvedPos.start", {"self": "ResolvedPos", "depth": "opt[int]"}, returns="int",
         requires=["depth is None or (0 <= depth and depth <= self.depth)"],
         ensures=["result == rp_start(self, self.depth if depth is None else depth)"], trusted=T, props=["C18"])
contract(FP, "ResolvedPos.end", {"self": "ResolvedPos", "depth": "opt[int]"}, returns="int",
         requires=["depth is None or (0 <= depth and depth <= self.depth)"],
         ensures=["result == rp_end(self, self.depth if depth is None else depth)"], trusted=T, props=["C18"])
contract(FP, "ResolvedPos.parent", {"self": "ResolvedPos"}, returns="Node", is_property=True, ensures=["result == rp_node(self, self.depth)"], trusted=T, props=["C18"])
contract(FP, "NodeRange.parent", {"self": "NodeRange"}, returns="Node", is_property=True, ensures=["result == rp_node(self.from_, self.depth)"], trusted=T, props=["C18"])
contract(FP, "NodeRange.start_index", {"self": "NodeRange"}, returns="int", is_property=True,
         ensures=["result == rp_index(self.from_, self.depth)", "0 <= result"], trusted=T, props=["C18"])
contract(FP, "NodeRange.end_index", {"self": "NodeRange"}, returns="int", is_property=True,
         ensures=["result == rp_index_after(self.to, self.depth)", "rp_index(self.from_, self.depth) <= result",
                  "result <= len(rp_node(self.from_, self.depth).content.content)"], trusted=T, props=["C18"])
axiom("resolved-depth-nonneg", {"rp": "ResolvedPos"}, "rp.depth >= 0", "type invariant of ResolvedPos (depth = len(path)/3 - 1 with a non-empty path)", triggers=["rp.depth"])

P18 = ["C18"]

# ---- covered_depths: an isolating ancestor stops the expansion
contract(FTRR, "covered_depths", {"from__": "ResolvedPos", "to_": "ResolvedPos"}, returns="list[int]",
         ensures=[
             "all_(0, len(result), lambda q: 0 <= result[q] and result[q] <= min(from__.depth, to_.depth))",
             # every covered depth, and every depth between it and the innermost common one, is free of isolating nodes on both sides
             "all_(0, len(result), lambda q: all_(result[q], min(from__.depth, to_.depth) + 1, lambda k: not iso_at(from__, k) and not iso_at(to_, k)))",
         ],
         loops={0: dict(invariant=[
             "min_depth == min(from__.depth, to_.depth)",
             "all_(d + 1, min_depth + 1, lambda k: not iso_at(from__, k) and not iso_at(to_, k))",
             "all_(0, len(result), lambda q: d < result[q] and result[q] <= min_depth)",
             "all_(0, len(result), lambda q: all_(result[q], min_depth + 1, lambda k: not iso_at(from__, k) and not iso_at(to_, k)))",
         ])},
         locals={"result": "list[int]"},
         props=P18 + ["C11"])

# ---- Slice.max_open: with open_isolating=False no isolating node is opened on either spine
lemma("first-child-smaller", {"n": "Node"},
      requires=["not n.type.is_text", "not leaf_t(n.type)", "len(n.content.content) > 0", "n.content.size == pre(n.content.content, len(n.content.content))"],
      ensures=["nsize(n.content.content[0]) < nsize(n)", "nsize(n.content.content[len(n.content.content) - 1]) < nsize(n)"],
      calls=[("pre-step", ["n.content.content", "1", "len(n.content.content)"]), ("pre-step", ["n.content.content", "0", "len(n.content.content) - 1"])],
      terms=["pre(n.content.content, 1)", "pre(n.content.content, 0)", "pre(n.content.content, len(n.content.content))", "pre(n.content.content, len(n.content.content) - 1)"],
      props=P18)

contract(FR, "Slice.max_open", {"fragment": "Fragment", "open_isolating": "bool"}, returns="Slice",
         ensures=["result.content == fragment", "result.open_start >= 0", "result.open_end >= 0",
                  "not open_isolating ==> all_(0, result.open_start, lambda k: not spec_isolating(spine_first(fragment, k).type))",
                  "not open_isolating ==> all_(0, result.open_end, lambda k: not spec_isolating(spine_last(fragment, k).type))"],
         loops={0: dict(invariant=["open_start >= 0", "open_end == 0",
                                   "n is not None ==> len(fragment.content) > 0 and n == spine_first(fragment, open_start)",
                                   "not open_isolating ==> all_(0, open_start, lambda k: not spec_isolating(spine_first(fragment, k).type))"],
                        decreases="0 if n is None else nsize(n)",
                        calls=[("first-child-smaller", ["spine_first(fragment, open_start - 1)"])]),
                1: dict(invariant=["open_start >= 0", "open_end >= 0",
                                   "not open_isolating ==> all_(0, open_start, lambda k: not spec_isolating(spine_first(fragment, k).type))",
                                   "n is not None ==> len(fragment.content) > 0 and n == spine_last(fragment, open_end)",
                                   "not open_isolating ==> all_(0, open_end, lambda k: not spec_isolating(spine_last(fragment, k).type))"],
                        decreases="0 if n is None else nsize(n)",
                        calls=[("first-child-smaller", ["spine_last(fragment, open_end - 1)"])])},
         locals={"n": "opt[Node]"},
         props=P18)

# ---- can_cut / lift_target: a returned depth is reached only through non-isolating ancestors
contract(FSTR, "can_cut", {"node": "Node", "start": "int", "end": "int"}, returns="bool",
         requires=["0 <= start", "start <= end", "end <= len(node.content.content)"],
         may_raise={"ValueError": "True"},
         ensures=["result == ((start == 0 or replace_ok(node.type, node.content.content, start, len(node.content.content), Fragment.empty.content, 0, 0))"
                  " and (end == len(node.content.content) or replace_ok(node.type, node.content.content, 0, end, Fragment.empty.content, 0, 0)))"],
         props=["C12"])

contract(FSTR, "lift_target", {"range_": "NodeRange"}, returns="opt[int]",
         requires=["0 <= range_.depth", "range_.depth <= range_.from_.depth", "range_.depth <= range_.to.depth",
                   "rp_index(range_.from_, range_.depth) <= rp_index_after(range_.to, range_.depth)",
                   # the two ends of a block range share their ancestors down to its depth
                   "all_(0, range_.depth + 1, lambda k: rp_node(range_.from_, k) == rp_node(range_.to, k) and rp_index(range_.from_, k) <= rp_index_after(range_.to, k))"],
         may_raise={"ValueError": "True"},
         ensures=["result is not None ==> 0 <= result and result < range_.depth",
                  # lifting never crosses an isolating boundary: every ancestor strictly below the target down to the range's parent is not isolating
                  "result is not None ==> all_(result + 1, range_.depth + 1, lambda k: not iso_at(range_.from_, k))"],
         loops={0: dict(invariant=["0 <= depth", "depth <= range_.depth",
                                   "all_(depth + 1, range_.depth + 1, lambda k: not iso_at(range_.from_, k))"],
                        decreases="depth")},
         props=P18 + ["C12"])
