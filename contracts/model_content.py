"""Contracts for content matching and the validity predicates built on it (C07; used by C15, C12)."""
import os

from pyvc.api import abstract, cls, contract, lemma, spec_file

from . import classes  # noqa: F401
from . import model_core  # noqa: F401
from . import model_mark  # noqa: F401
from .classes import FC, FN, FS

spec_file(os.path.join(os.path.dirname(os.path.dirname(os.path.abspath(__file__))), "spec", "contentspec.py"))

P = ["C07"]

contract(FC, "ContentMatch.match_type", {"self": "ContentMatch", "type": "NodeType"}, returns="opt[ContentMatch]",
         ensures=["(result is None) == (edge_idx(self.next, type.name, 0) < 0)",
                  "result is not None ==> result == self.next[edge_idx(self.next, type.name, 0)].next"],
         loops={0: dict(invariant=["edge_idx(self.next, type.name, 0) == edge_idx(self.next, type.name, _i0)"])},
         props=P + ["C15"])

contract(FC, "ContentMatch.match_fragment", {"self": "ContentMatch", "frag": "Fragment", "start": "int", "end": "opt[int]"}, returns="opt[ContentMatch]",
         requires=["0 <= start", "end is None or end <= len(frag.content)"],
         ensures=["run_ok(self, frag.content, start, len(frag.content) if end is None else end) == (result is not None)",
                  "result is not None ==> result == run_st(self, frag.content, start, len(frag.content) if end is None else end)"],
         loops={0: dict(invariant=[
             "start <= i or i == start",
             "end is not None",
             "cur is not None ==> run_ok(self, frag.content, start, end) == run_ok(cur, frag.content, i, end)",
             "cur is not None ==> run_st(self, frag.content, start, end) == run_st(cur, frag.content, i, end)",
             "cur is None ==> not run_ok(self, frag.content, start, end)",
             "i <= end or cur is None or i == start",
         ], decreases="end - i")},
         locals={"cur": "opt[ContentMatch]"},
         props=P + ["C15"])

contract(FC, "ContentMatch.compatible", {"self": "ContentMatch", "other": "ContentMatch"}, returns="bool",
         ensures=["result == (compat_idx(self.next, other.next, 0) >= 0)"],
         loops={0: dict(invariant=["compat_idx(self.next, other.next, 0) == compat_idx(self.next, other.next, _i0)"]),
                1: dict(invariant=["edge_idx(other.next, i.type.name, 0) == edge_idx(other.next, i.type.name, _i1)"])},
         props=P)

contract(FC, "ContentMatch.edge_count", {"self": "ContentMatch"}, returns="int", is_property=True, ensures=["result == len(self.next)"], props=P)
contract(FC, "ContentMatch.edge", {"self": "ContentMatch", "n": "int"}, returns="MatchEdge",
         requires=["0 <= n"], raises={"ValueError": "n >= len(self.next)"}, ensures=["result == self.next[n]"], props=P)

spec_file(os.path.join(os.path.dirname(os.path.dirname(os.path.abspath(__file__))), "spec", "markspec.py"))

CM = "self.type.content_match"
C = "self.content.content"

contract(FN, "Node.content_match_at", {"self": "Node", "index": "int"}, returns="ContentMatch",
         requires=["0 <= index", f"index <= len({C})"],
         raises={"ValueError": f"not run_ok({CM}, {C}, 0, index)"},
         ensures=[f"result == run_st({CM}, {C}, 0, index)"], props=P)

contract(FN, "Node.can_replace", {"self": "Node", "from_": "int", "to": "int", "replacement": "Fragment", "start": "int", "end": "opt[int]"}, returns="bool",
         requires=["0 <= from_", "from_ <= to", f"to <= len({C})", "0 <= start", "end is None or (start <= end and end <= len(replacement.content))",
                   "start <= len(replacement.content)"],
         raises={"ValueError": f"not run_ok({CM}, {C}, 0, from_)"},
         ensures=[f"result == replace_ok(self.type, {C}, from_, to, replacement.content, start, len(replacement.content) if end is None else end)"],
         loops={0: dict(invariant=["end is not None", "first_bad_child(self.type, replacement.content, start, end) == first_bad_child(self.type, replacement.content, i, end)",
                                   "i <= end or i == start"])},
         locals={"two": "opt[ContentMatch]"},
         props=P + ["C12"])

contract(FN, "Node.can_replace_with", {"self": "Node", "from_": "int", "to": "int", "type": "NodeType", "marks": "opt[list[Mark]]"}, returns="bool",
         requires=["0 <= from_", "from_ <= to", f"to <= len({C})"],
         raises={"ValueError": f"not run_ok({CM}, {C}, 0, from_) and not (marks is not None and len(marks) > 0 and first_disallowed(self.type, marks, 0) >= 0)"},
         ensures=[f"result == ((marks is None or len(marks) == 0 or first_disallowed(self.type, marks, 0) < 0)"
                  f" and step_ok(run_st({CM}, {C}, 0, from_), type)"
                  f" and run_ok(step_st(run_st({CM}, {C}, 0, from_), type), {C}, to, len({C}))"
                  f" and run_st(step_st(run_st({CM}, {C}, 0, from_), type), {C}, to, len({C})).valid_end)"],
         locals={"end": "opt[ContentMatch]"},
         props=P + ["C12"])

contract(FS, "NodeType.valid_content", {"self": "NodeType", "content": "Fragment"}, returns="bool",
         ensures=["result == valid_seq(self, content.content)"],
         loops={0: dict(invariant=["first_bad_child(self, content.content, 0, len(content.content)) == first_bad_child(self, content.content, i, len(content.content))"])},
         props=P + ["C01"])

contract(FS, "NodeType.compatible_content", {"self": "NodeType", "other": "NodeType"}, returns="bool",
         ensures=["result == (self == other or compat_idx(self.content_match.next, other.content_match.next, 0) >= 0)"], props=P)

contract(FN, "Node.can_append", {"self": "Node", "other": "Node"}, returns="bool",
         raises={"ValueError": f"other.content.size != 0 and not run_ok({CM}, {C}, 0, len({C}))"},
         ensures=[f"other.content.size != 0 ==> result == replace_ok(self.type, {C}, len({C}), len({C}), other.content.content, 0, len(other.content.content))",
                  "other.content.size == 0 ==> result == (self.type == other.type or compat_idx(self.type.content_match.next, other.type.content_match.next, 0) >= 0)"],
         props=P + ["C12"])


# ---- ContentMatch.default_type: the first edge whose type can be generated (no text, no required attributes)
from pyvc.api import abstract as _abstract  # noqa: E402

_abstract("req_attrs", ["NodeType"], "bool")
contract(FS, "NodeType.has_required_attrs", {"self": "NodeType"}, returns="bool", defines=["result == req_attrs(self)"],
         trusted="naming of a pure predicate of the node type (any attribute without default); dictionary iteration is outside the verifier's kinds", props=["C15"])
# an attribute is required exactly when its declaration has no `default` key (an explicit default of None is a default)
cls("Attribute", "prosemirror/model/schema.py", {"has_default": "bool", "default": "any"})
contract(FS, "Attribute.is_required", {"self": "Attribute"}, returns="bool", is_property=True, ensures=["result == (not self.has_default)"], props=["C15", "C05"])
contract(FC, "ContentMatch.default_type", {"self": "ContentMatch"}, returns="opt[NodeType]", is_property=True,
         ensures=["(result is None) == (gen_idx(self.next, 0) < 0)", "result is not None ==> result == self.next[gen_idx(self.next, 0)].type",
                  "result is not None ==> not result.is_text and not req_attrs(result)"],
         loops={0: dict(invariant=["gen_idx(self.next, 0) == gen_idx(self.next, _i0)"])},
         props=["C15"])
