"""Class declarations shared by the model sidecars (fields read by the verified functions)."""
from pyvc.api import cls

FM = "prosemirror/model/mark.py"
FS = "prosemirror/model/schema.py"
FN = "prosemirror/model/node.py"
FF = "prosemirror/model/fragment.py"
FR = "prosemirror/model/replace.py"
FC = "prosemirror/model/content.py"

cls("MarkType", FS, {"name": "str", "rank": "int", "excluded": "list[MarkType]"})
cls("Mark", FM, {"type": "MarkType", "attrs": "val"})
cls("NodeType", FS, {"name": "str", "mark_set": "opt[list[MarkType]]", "is_text": "bool", "is_block": "bool", "inline_content": "bool",
                     "content_match": "ContentMatch"})
cls("ContentMatch", FC, {"valid_end": "bool", "next": "list[MatchEdge]"})
cls("MatchEdge", FC, {"type": "NodeType", "next": "ContentMatch"})
cls("Fragment", FF, {"content": "list[Node]", "size": "int"})
cls("Node", FN, {"type": "NodeType", "attrs": "val", "content": "Fragment", "marks": "list[Mark]", "text": "str"})
cls("TextNode", FN, {}, bases=["Node"])
cls("Slice", FR, {"content": "Fragment", "open_start": "int", "open_end": "int"})
