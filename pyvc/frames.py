"""Ownership / frame checker (tier P'): every heap write in the library is a write to a freshly
allocated object, to the object under construction, or to a location the sidecar declares
modifiable.  One obligation per write site, decided by a flow-insensitive intraprocedural
analysis over the AST of the real source (re-read on every run).

A write is one of: attribute store, subscript store / delete, augmented assignment to an
attribute or subscript, call of a mutating method (append, extend, insert, pop, remove, sort,
reverse, clear, update, setdefault, popitem).

Sound for the code shapes present under these (listed) assumptions: no setattr/__dict__/
object.__setattr__ tricks (scanned), user callbacks do not mutate, library functions called
on arguments do not mutate them except the listed mutators.
"""
from __future__ import annotations

import ast
import os

MUTATORS = {"append", "extend", "insert", "pop", "remove", "sort", "reverse", "clear", "update", "setdefault", "popitem", "add", "discard"}
FRESH_CALLS = {"list", "sorted", "dict", "set", "reversed", "tuple", "frozenset"}

FILES = [
    "prosemirror/model/fragment.py", "prosemirror/model/node.py", "prosemirror/model/mark.py", "prosemirror/model/replace.py",
    "prosemirror/model/resolvedpos.py", "prosemirror/model/diff.py", "prosemirror/model/content.py", "prosemirror/model/schema.py",
    "prosemirror/model/comparedeep.py",
    "prosemirror/transform/map.py", "prosemirror/transform/step.py", "prosemirror/transform/replace_step.py", "prosemirror/transform/mark_step.py",
    "prosemirror/transform/attr_step.py", "prosemirror/transform/doc_attr_step.py", "prosemirror/transform/replace.py",
    "prosemirror/transform/structure.py", "prosemirror/transform/transform.py",
]

# ---- declared modifiable locations: (class name, field) that methods of that class may write
MODIFIABLE_SELF = {
    "Transform": {"doc", "steps", "docs", "mapping"},  # the documented accumulator
    "Mapping": {"maps", "mirror", "to"},  # the documented accumulator
    "Fitter": {"frontier", "placed", "unplaced", "to_", "from__"},  # private working state of one fit()
    "TokenStream": {"pos", "inline"},  # content-expression parser cursor
    "ContentMatch": {"wrap_cache"},  # memo of find_wrapping results (never observable through the API)
    "NodeContext": {"*"}, "ParseContext": {"*"}, "DOMParser": {"normalize_lists"},  # DOM parser working state
    "NodeType": {"_content_match"},  # the content_match property setter used while the schema is built
}
# writes to objects that are not `self`: (function qualname, root name) allowed, with the reason
MODIFIABLE_OTHER = {
    ("parse_num", "stream"): "content-expression parser cursor", ("parse_expr_atom", "stream"): "content-expression parser cursor",
    ("parse_expr_atom.iteratee", "stream"): "content-expression parser cursor",
    ("Fitter.open_frontier_node", "top"): "frontier item owned by this Fitter",
    ("Transform.replace_range", "target_depths"): "list freshly built by covered_depths for this call",
    ("add_node", "target"): "accumulator list passed by replace_two_way/three_way, allocated there",
    ("add_range", "target"): "same accumulator",
    ("nfa.connect", "edge"): "edges of the NFA under construction (local to ContentMatch.parse)",
    ("nfa.node", "nfa_"): "NFA under construction", ("nfa.edge", "nfa_"): "NFA under construction",
    ("nfa.compile", "edge"): "NFA under construction",
    ("dfa.explore", "state"): "DFA state created in this activation", ("dfa.explore", "labeled"): "builder's table", ("dfa.explore", "set"): "state set under construction",
    ("dfa.explore", "out"): "builder's list",
    ("null_from.scan", "result"): "builder's list",
    ("Schema.__init__", "type"): "node types created by this constructor (content_match, inline_content, mark_set are filled in here)",
    ("Schema.__init__", "mark"): "mark types created by this constructor (excluded is filled in here)",
    ("step_json_id", "step_class"): "registration of a step class at import time", ("step_json_id", "STEPS_BY_ID"): "the registry, at import time",
    ("Transform.add_mark.iteratee", "removing"): "RemoveMarkStep created in this call and not yet applied", ("Transform.add_mark.iteratee", "adding"): "AddMarkStep created in this call and not yet applied",
    ("Transform.add_mark.iteratee", "removed"): "local plan", ("Transform.add_mark.iteratee", "added"): "local plan",
    ("Transform.remove_mark.iteratee", "found"): "record of the local plan", ("Transform.remove_mark.iteratee", "matched"): "local plan", ("Transform.remove_mark.iteratee", "to_remove"): "local list",
    ("ContentMatch.fill_before.search", "seen"): "local visited list", ("ContentMatch.__str__.scan", "seen"): "local visited list",
    ("Fragment.text_between.iteratee", "text"): "local accumulator",
    ("ParseContext.__init__", "top_context"): "parser state", ("DOMParser.parse", "d"): "the DOM copy being normalised (lxml tree supplied by the caller: documented destructive pre-pass)",
    ("DOMParser.parse", "parent"): "same DOM pre-pass", ("DOMParser.parse", "child"): "element created here",
    ("normalize_list", "prev_item"): "DOM pre-pass on the caller's lxml tree (documented)",
    ("ParseContext.leaf_fallback", "child"): "element created here", ("ParseContext.leaf_fallback", "dom_"): "DOM pre-pass on the caller's lxml tree",
    ("block.result", "my_attrs"): "test builder", ("mark.result", "my_attrs"): "test builder",
    ("mark_may_apply.scan", "seen"): "local visited list",
    ("ParseRule.from_json", "rule"): "rule created here",
    ("DOMParser.schema_rules.insert", "result"): "local list",
    ("DOMParser.schema_rules", "result"): "local list", ("DOMParser.schema_rules", "rule"): "rule copied here",
    ("gather_to_dom", "result"): "local dict",
    ("DOMSerializer.serialize_fragment.iteratee", "active"): "local stack", ("DOMSerializer.serialize_fragment.iteratee", "top"): "element created in this call", ("DOMSerializer.serialize_fragment.iteratee", "target"): "element created in this call",
}


class Site:
    def __init__(self, file, func, line, what, root, ok, reason):
        self.file, self.func, self.line, self.what, self.root, self.ok, self.reason = file, func, line, what, root, ok, reason

    @property
    def name(self):
        return f"frame:{self.file.split('/')[-1]}:{self.func}:{self.what}@L{self.line}"


def _fresh_expr(e, fresh_names=()) -> bool:
    if isinstance(e, ast.Constant):
        return True
    if isinstance(e, (ast.List, ast.ListComp, ast.Dict, ast.DictComp, ast.Set, ast.SetComp, ast.Tuple, ast.JoinedStr)):
        return True
    if isinstance(e, ast.Subscript) and isinstance(e.slice, ast.Slice):
        return True
    if isinstance(e, ast.BinOp) and isinstance(e.op, ast.Add):
        return _fresh_expr(e.left, fresh_names) or _fresh_expr(e.right, fresh_names)
    if isinstance(e, ast.Call):
        f = e.func
        if isinstance(f, ast.Name) and (f.id in FRESH_CALLS or f.id[:1].isupper()):
            return True  # constructor call
        if isinstance(f, ast.Attribute) and f.attr in ("copy", "deepcopy") :
            return True
        if isinstance(f, ast.Attribute) and isinstance(f.value, ast.Attribute) and f.attr == "Element":
            return True
        if isinstance(f, ast.Attribute) and f.attr in ("create", "Element"):
            return True
    if isinstance(e, ast.IfExp):
        return _fresh_expr(e.body, fresh_names) and _fresh_expr(e.orelse, fresh_names)
    if isinstance(e, ast.BoolOp):
        return all(_fresh_expr(v, fresh_names) or (isinstance(v, ast.Name) and v.id in fresh_names) for v in e.values[-1:])
    if isinstance(e, ast.Name) and e.id in fresh_names:
        return True
    return False


def fresh_locals(fd) -> set:
    """local names every assignment of which is a fresh allocation; iteration variables over
    fresh local lists count as derived-fresh; parameters never are"""
    params = {a.arg for a in fd.args.posonlyargs + fd.args.args + fd.args.kwonlyargs}
    if fd.args.vararg:
        params.add(fd.args.vararg.arg)
    assigns: dict[str, list] = {}
    iters: dict[str, list] = {}
    for n in _own_nodes(fd):
        pairs = []
        if isinstance(n, ast.Assign):
            pairs = [(t, n.value) for t in n.targets]
        elif isinstance(n, ast.AnnAssign) and n.value is not None:
            pairs = [(n.target, n.value)]
        elif isinstance(n, ast.NamedExpr):
            pairs = [(n.target, n.value)]
        elif isinstance(n, (ast.For, ast.comprehension)):
            for t in ast.walk(n.target):
                if isinstance(t, ast.Name):
                    iters.setdefault(t.id, []).append(n.iter)
        elif isinstance(n, ast.AugAssign) and isinstance(n.target, ast.Name):
            assigns.setdefault(n.target.id, []).append(ast.Constant(0))
        for t, v in pairs:
            if isinstance(t, ast.Name):
                assigns.setdefault(t.id, []).append(v)
            elif isinstance(t, (ast.Tuple, ast.List)):
                if isinstance(v, (ast.Tuple, ast.List)) and len(v.elts) == len(t.elts):
                    for x, y in zip(t.elts, v.elts):
                        if isinstance(x, ast.Name):
                            assigns.setdefault(x.id, []).append(y)
                    continue
                for x in ast.walk(t):
                    if isinstance(x, ast.Name):
                        assigns.setdefault(x.id, []).append(None)
    good: set = set()
    changed = True
    while changed:
        changed = False
        for name, vals in assigns.items():
            if name in good or name in params or name in iters:
                continue
            if all(v is not None and _fresh_expr(v, good) for v in vals):
                good.add(name)
                changed = True
        for name, its in iters.items():
            if name in good or name in params or name in assigns:
                continue
            if all(isinstance(i, ast.Name) and i.id in good for i in its):
                good.add(name)
                changed = True
    return good


def _listy(e) -> bool:
    if isinstance(e, (ast.List, ast.ListComp, ast.Dict, ast.DictComp, ast.Set)):
        return True
    if isinstance(e, ast.Call) and isinstance(e.func, ast.Name) and e.func.id in FRESH_CALLS:
        return True
    if isinstance(e, ast.Call) and isinstance(e.func, ast.Attribute) and e.func.attr == "copy":
        return True
    if isinstance(e, ast.Subscript) and isinstance(e.slice, ast.Slice):
        return True
    if isinstance(e, ast.BinOp) and isinstance(e.op, ast.Add):
        return _listy(e.left) or _listy(e.right)
    if isinstance(e, ast.IfExp):
        return _listy(e.body) or _listy(e.orelse)
    if isinstance(e, ast.BoolOp):
        return any(_listy(v) for v in e.values)
    return False


def list_names(fd) -> set:
    """names with evidence of holding a builtin container (list / dict / set)"""
    out = set()
    for a in fd.args.posonlyargs + fd.args.args + fd.args.kwonlyargs:
        ann = ast.unparse(a.annotation) if a.annotation is not None else ""
        if ann.startswith(("list", "dict", "set", "Sequence", "List", "Dict")) or "list[" in ann:
            out.add(a.arg)
    for n in _own_nodes(fd):
        pairs = []
        if isinstance(n, ast.Assign):
            pairs = [(t, n.value) for t in n.targets]
        elif isinstance(n, ast.AnnAssign):
            ann = ast.unparse(n.annotation)
            if isinstance(n.target, ast.Name) and ("list[" in ann or "dict[" in ann or ann.startswith(("list", "dict", "set"))):
                out.add(n.target.id)
            if n.value is not None:
                pairs = [(n.target, n.value)]
        elif isinstance(n, ast.NamedExpr):
            pairs = [(n.target, n.value)]
        for t, v in pairs:
            if isinstance(t, ast.Name) and _listy(v):
                out.add(t.id)
            elif isinstance(t, (ast.Tuple, ast.List)) and isinstance(v, (ast.Tuple, ast.List)) and len(v.elts) == len(t.elts):
                for x, y in zip(t.elts, v.elts):
                    if isinstance(x, ast.Name) and _listy(y):
                        out.add(x.id)
    return out


def _own_nodes(fd):
    """nodes of fd excluding nested function bodies"""
    todo = list(ast.iter_child_nodes(fd))
    while todo:
        n = todo.pop()
        yield n
        if isinstance(n, (ast.FunctionDef, ast.Lambda, ast.ClassDef)):
            continue
        todo.extend(ast.iter_child_nodes(n))


def _root(e):
    """(root name, first attribute after the root or None)"""
    first = None
    while True:
        if isinstance(e, ast.Attribute):
            first = e.attr
            e = e.value
        elif isinstance(e, ast.Subscript):
            e = e.value
        elif isinstance(e, ast.Call):
            return None, None
        elif isinstance(e, ast.Name):
            return e.id, first
        else:
            return None, None


def analyse_function(rel, qual, fd, cls, outer_fresh=frozenset()):
    sites = []
    fresh = fresh_locals(fd) | set(outer_fresh)
    lists = list_names(fd)
    is_init = fd.name == "__init__"
    self_name = fd.args.args[0].arg if (cls and fd.args.args and fd.args.args[0].arg in ("self",)) else None
    nonlocals = set()
    for n in _own_nodes(fd):
        if isinstance(n, (ast.Nonlocal, ast.Global)):
            nonlocals.update(n.names)

    def judge(target_expr, what, line, direct_attr=None):
        root, first = _root(target_expr)
        if root is None:
            return Site(rel, qual, line, what, "?", False, "write through a computed expression")
        field = direct_attr or first
        if root == self_name:
            if is_init:
                return Site(rel, qual, line, what, root, True, "object under construction")
            allowed = MODIFIABLE_SELF.get(cls, set())
            if field in allowed or "*" in allowed:
                return Site(rel, qual, line, what, root, True, f"declared modifiable: {cls}.{field}")
            if fd.name in ("content_match",) and field == "_content_match":
                return Site(rel, qual, line, what, root, True, "property setter used during schema construction")
            return Site(rel, qual, line, what, root, False, f"{cls}.{field} is not declared modifiable")
        if root == "cls" and qual.endswith("compile"):
            return Site(rel, qual, line, what, root, True, "class-level table at import")
        if root in fresh and root not in nonlocals:
            return Site(rel, qual, line, what, root, True, "freshly allocated in this activation")
        for key in ((qual, root), (qual.split(".")[-1], root)):
            if key in MODIFIABLE_OTHER:
                return Site(rel, qual, line, what, root, True, "declared: " + MODIFIABLE_OTHER[key])
        return Site(rel, qual, line, what, root, False, f"`{root}` is a parameter / shared object, not fresh on every path and not declared modifiable")

    for n in _own_nodes(fd):
        line = getattr(n, "lineno", fd.lineno)
        if isinstance(n, (ast.Assign, ast.AnnAssign, ast.AugAssign)):
            targets = n.targets if isinstance(n, ast.Assign) else [n.target]
            for t in targets:
                for x in ([t] if not isinstance(t, (ast.Tuple, ast.List)) else t.elts):
                    if isinstance(x, ast.Attribute):
                        sites.append(judge(x.value, f"store .{x.attr}", line, direct_attr=x.attr if isinstance(x.value, ast.Name) else None))
                    elif isinstance(x, ast.Subscript):
                        sites.append(judge(x.value, "store [..]", line))
        elif isinstance(n, ast.Delete):
            for x in n.targets:
                if isinstance(x, (ast.Attribute, ast.Subscript)):
                    sites.append(judge(x.value, "del", line))
        elif isinstance(n, ast.Call) and isinstance(n.func, ast.Attribute) and n.func.attr in MUTATORS:
            base = n.func.value
            if n.func.attr == "append" and len(n.args) == 1:
                # Fragment.append is a pure method (its own body is analysed like any other): the
                # call is a list mutation only when the receiver can be a builtin list
                if isinstance(base, ast.Call):
                    continue
                if isinstance(base, ast.Name) and base.id not in lists:
                    continue
                if isinstance(base, ast.Attribute) and base.attr == "content" and not (cls == "Fragment" and isinstance(base.value, ast.Name) and base.value.id == self_name):
                    continue  # Node.content / Slice.content are Fragments; Fragment.content is the list
                if isinstance(base, ast.Attribute) and base.attr in ("placed",):
                    continue
            # str / dict-of-locals false positives: only lists, dicts, sets and objects matter; we
            # cannot type them, so every such call is an obligation
            sites.append(judge(base, f"call .{n.func.attr}()", line))
        elif isinstance(n, ast.Call) and isinstance(n.func, ast.Name) and n.func.id in ("setattr", "delattr"):
            sites.append(Site(rel, qual, line, n.func.id, "?", False, "reflective write"))
    return sites, fresh


# constructor calls whose list arguments must be fresh copies (the result must not share them)
CAPTURE_FRESH = {"Mapping.copy": {"Mapping"}}


def capture_sites(rel, qual, fd):
    sites = []
    for n in ast.walk(fd):
        if isinstance(n, ast.Call) and isinstance(n.func, ast.Name) and n.func.id in CAPTURE_FRESH.get(qual, ()):
            for i, a in enumerate(n.args[:2]):
                ok = _fresh_expr(a)
                sites.append(Site(rel, qual, n.lineno, f"capture arg{i} of {n.func.id}()", "?", ok, "fresh copy" if ok else "the new object shares a list with the original"))
    return sites


JSON_FIELDS = {"attrs", "value"}  # fields that hold caller-visible JSON containers


def json_fresh_sites(rel, qual, fd, cls):
    """C05 / C10: JSON produced by to_json must not alias live attribute objects: inside a
    to_json method, self.attrs / self.value may only be read as the argument of
    copy.deepcopy (or in a truth test)."""
    sites = []
    if fd.name != "to_json":
        return sites
    guarded = set()
    for n in ast.walk(fd):
        if isinstance(n, ast.Call) and isinstance(n.func, ast.Attribute) and n.func.attr == "deepcopy":
            for a in n.args:
                guarded.add(id(a))
        if isinstance(n, (ast.If, ast.IfExp)):
            guarded.add(id(n.test))
    for n in ast.walk(fd):
        if isinstance(n, ast.Attribute) and n.attr in JSON_FIELDS and isinstance(n.value, ast.Name) and n.value.id == "self" and isinstance(n.ctx, ast.Load):
            ok = id(n) in guarded
            sites.append(Site(rel, qual, n.lineno, f"json-fresh .{n.attr}", "self", ok, "deep-copied" if ok else f"to_json hands out the live self.{n.attr} object (the produced JSON aliases it)"))
    return sites


def analyse_repo(repo):
    """-> (sites, problems)"""
    sites = []
    problems = []
    for rel in FILES:
        path = os.path.join(repo, rel)
        if not os.path.exists(path):
            problems.append(f"{rel} missing (drift)")
            continue
        tree = ast.parse(open(path, encoding="utf-8").read(), filename=path)
        for n in ast.walk(tree):
            if isinstance(n, ast.Attribute) and n.attr in ("__dict__", "__setattr__"):
                problems.append(f"{rel}:{n.lineno} uses {n.attr}")

        def visit(body, prefix, cls, outer_fresh):
            for n in body:
                if isinstance(n, ast.ClassDef):
                    visit(n.body, prefix + n.name + ".", n.name, frozenset())
                elif isinstance(n, (ast.FunctionDef, ast.AsyncFunctionDef)):
                    qual = prefix + n.name
                    s, fresh = analyse_function(rel, qual, n, cls, outer_fresh)
                    sites.extend(s)
                    sites.extend(json_fresh_sites(rel, qual, n, cls))
                    sites.extend(capture_sites(rel, qual, n))
                    inner = [x for x in _own_nodes(n) if isinstance(x, ast.FunctionDef)]
                    visit(inner, qual + ".", cls, frozenset(fresh) | outer_fresh)

        visit(tree.body, "", None, frozenset())
    return sites, problems


def main():
    import sys

    repo = sys.argv[1] if len(sys.argv) > 1 else "/repo"
    sites, problems = analyse_repo(repo)
    bad = [s for s in sites if not s.ok]
    print(len(sites), "write sites;", len(bad), "not discharged;", len(problems), "problems")
    for s in bad:
        print("  ", s.name, "--", s.reason)
    for p in problems:
        print("  problem:", p)


if __name__ == "__main__":
    main()
