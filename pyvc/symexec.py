"""Forward symbolic executor over the real AST of one function under contract."""
from __future__ import annotations

import ast
import os

import z3

from . import api
from .engine import (
    Ctx,
    Env,
    Obl,
    Pure,
    St,
    _ann_kind,
    _parse_spec,
    binop,
    compare,
    exc_is,
    next_id,
    read_field,
    wrap,
    wrap_elem,
)
from .kinds import (
    BOOL,
    INT,
    IntSeq,
    KindError,
    Obj,
    Unsupported,
    V,
    VBool,
    VFunc,
    VInt,
    VNone,
    VObj,
    VOpt,
    VRec,
    VSeq,
    VStrConst,
    VTuple,
    VVal,
    coerce,
    eq,
    fresh,
    is_class_kind,
    is_none,
    ite,
    mergeable,
    sort_of,
    str_const,
    truthy,
)

SPEC_FLAGS = {"isolating", "defining", "definingAsContext", "definingForContent", "code"}  # read only as truth values
MUTATORS = {"append", "extend", "insert", "pop", "remove", "sort", "reverse", "clear", "update", "setdefault", "popitem"}
MAX_PATHS = 4000


class Exec:
    def __init__(self, ctx: Ctx, c: api.Contract):
        self.ctx = ctx
        self.c = c
        self.fd = ctx.find_def(c.file, c.qualname)
        if self.fd is None:
            raise Unsupported(f"function {c.qualname} not found in {c.file} (drift)")
        self.cls = c.qualname.split(".")[0] if "." in c.qualname else None
        self.obls: list[Obl] = []
        self.pending: list = []  # exceptional paths produced inside expression evaluation
        self.cur: St | None = None
        self.line = self.fd.lineno
        self.consts = ctx.module_consts(c.file)
        self.loop_ids: dict[int, int] = {}
        self.local_kinds: dict[str, str] = {}
        self.paths = 0
        self.entry_env: Env | None = None
        self.ret_paths = 0
        self.notes: list[str] = []
        self._implied_cache: dict = {}
        self._number_loops()
        self._scan_local_kinds()
        self.fresh_locals = fresh_locals(self.fd)

    # ------------------------------------------------------------------ set-up
    def _number_loops(self):
        n = 0
        for node in _walk_in_order(self.fd):
            if isinstance(node, (ast.For, ast.While, ast.ListComp, ast.GeneratorExp)):
                self.loop_ids[id(node)] = n
                n += 1
        self.n_loops = n

    def _scan_local_kinds(self):
        for node in ast.walk(self.fd):
            if isinstance(node, ast.AnnAssign) and isinstance(node.target, ast.Name):
                k = _ann_kind(node.annotation)
                if k:
                    self.local_kinds[node.target.id] = k
        self.local_kinds.update(self.c.locals)

    def oblige(self, name, goal, note="", st=None, kind="assert"):
        st = st or self.cur
        self.obls.append(Obl(f"{self.c.qualname}/{name}@L{self.line}", self.line, st.pc, goal, kind, note))

    # ------------------------------------------------------------------ run
    def run(self):
        c = self.c
        for cname in {k for k in c.params.values() if is_class_kind(k)} | ({self.cls} if self.cls in api.CLASSES else set()):
            for p in self.ctx.class_semantics_ok(cname):
                raise Unsupported(f"A4/A5 violated: {p}")
        st = St()
        args = self.fd.args
        names = [a.arg for a in args.posonlyargs + args.args + args.kwonlyargs]
        for n in names:
            if n not in c.params:
                if n == "cls":
                    continue
                raise Unsupported(f"parameter {n} of {c.qualname} has no kind in the contract (drift)")
        for n in c.params:
            if n not in names:
                raise Unsupported(f"contract parameter {n} missing from {c.qualname} (drift)")
        for n, k in c.params.items():
            st.vars[n] = fresh(k, n)
        st.heap = self.ctx.fresh_heap("h0")
        st.trace = z3.Const(f"trace0!{next_id()}", IntSeq)
        st.pc = tuple(self.ctx.axioms_z3)
        entry_vars = dict(st.vars)
        entry_heap = dict(st.heap)
        self.entry_trace = st.trace
        self.entry_env = Env(entry_vars, entry_heap)
        self.entry_env.vars = {**entry_vars, "trace": VSeq("list[int]", st.trace)}
        pre = []
        for r in list(c.requires) + list(c.body_requires):
            pre.append(Pure(self.ctx, self.entry_env).b(_parse_spec(r)))
        if self.fd.name == "__init__" and "self" in st.vars:
            st.vars["__ctor__"] = st.vars["self"]
            st.vars["__ctor_cls__"] = VStrConst(self.cls or "")
        for n_, v_ in list(st.vars.items()):
            if not n_.startswith("__"):
                pre.extend(self.inv_facts(v_, st))
        st = st.assume(*pre)
        if not self.ctx.expand_quant:
            from .lemmas import lemma_fact

            st = st.assume(*[lemma_fact(self.ctx, u) for u in self.c.uses])
        self.entry_pc = st.pc
        # vacuity: requires must be satisfiable
        self.cur = st
        self.obls.append(Obl(f"{c.qualname}/cover:requires-satisfiable", self.fd.lineno, st.pc, z3.BoolVal(True), "cover"))
        if c.decreases:
            self.entry_dec = Pure(self.ctx, self.entry_env).ev(_parse_spec(c.decreases)).t
        outs = self.block(self.fd.body, st)
        for kind, s, payload in outs:
            if kind == "normal":
                self.check_return(s, VNone())
            elif kind == "return":
                self.check_return(s, payload)
            elif kind == "raise":
                self.check_raise(s, payload)
            else:
                raise Unsupported(f"{kind} outside loop")
        return self.obls

    def final_env(self, s: St) -> Env:
        vars_ = {**self.entry_env.vars, "trace": VSeq("list[int]", s.trace)}
        for m in self.c.mutates:
            if m in s.vars:
                vars_[m] = s.vars[m]  # the list as the function leaves it; old(m) is the list on entry
        return Env(vars_, s.heap, old=self.entry_env)

    def check_return(self, s: St, v: V):
        s = self.ghost_calls(self.c.calls, s, extra=None if isinstance(v, VNone) else {"result": v})
        self.cur = s
        self.ret_paths += 1
        self.obls.append(Obl(f"{self.c.qualname}/cover:return#{self.ret_paths}@L{self.line}", self.line, s.pc, z3.BoolVal(True), "cover"))
        env = self.final_env(s)
        for exc, cond in self.c.raises.items():
            cnd = Pure(self.ctx, self.entry_env).b(_parse_spec(cond))
            self.oblige(f"must-raise-{exc}", z3.Not(cnd), st=s)
        for ci, case in enumerate(self.c.cases):
            when = Pure(self.ctx, self.entry_env).b(_parse_spec(case["when"]))
            if z3.is_false(z3.simplify(when)):
                continue
            rk = case.get("returns", "none")
            try:
                rv = self.co(v, rk, s.assume(when), f"return:case{ci}") if rk != "none" else v
                if rk == "none" and not isinstance(v, VNone):
                    raise KindError("returns a value where contract says None")
            except KindError:
                self.oblige(f"return-kind:case{ci}", z3.Not(when), st=s, note=f"returned {v.kind}, contract case returns {rk}")
                continue
            for ei, clause in enumerate(case.get("ensures", [])):
                g = Pure(self.ctx, env, rv).b(_parse_spec(clause))
                self.oblige(f"post:case{ci}#{ei}", z3.Implies(when, g), st=s, note=clause)

    def check_raise(self, s: St, exc: str):
        self.cur = s
        allowed = None
        for e, cond in list(self.c.raises.items()) + list(self.c.may_raise.items()):
            if exc_is(exc, e):
                allowed = cond
        if allowed is None:
            self.oblige(f"no-{exc}", z3.BoolVal(False), st=s, note=f"{exc} may escape, contract allows {list(self.c.raises)}")
        else:
            g = Pure(self.ctx, self.entry_env).b(_parse_spec(allowed))
            self.oblige(f"raise-{exc}-only-when", g, st=s, note=allowed)

    # ------------------------------------------------------------------ statements
    def block(self, stmts, st: St):
        """-> list of (kind, state, payload); kind in normal|return|raise|break|continue."""
        outs = []
        live = [st]
        for s in stmts:
            nxt = []
            for cur in live:
                for o in self.stmt(s, cur):
                    if o[0] == "normal":
                        nxt.append(o[1])
                    else:
                        outs.append(o)
            live = nxt
            self.paths = max(self.paths, len(live) + len(outs))
            if len(live) + len(outs) > MAX_PATHS:
                raise Unsupported("path explosion")
            if not live:
                break
        outs.extend(("normal", s_, None) for s_ in live)
        return outs

    def stmt(self, s, st: St):
        self.line = getattr(s, "lineno", self.line)
        self.cur = st
        self.pending = []
        m = getattr(self, "st_" + type(s).__name__, None)
        if m is None:
            raise Unsupported(f"statement {type(s).__name__} at line {self.line}")
        outs = m(s, st)
        return outs

    def drain(self):
        p, self.pending = self.pending, []
        return [("raise", s, e) for s, e in p]

    def st_Pass(self, s, st):
        return [("normal", st, None)]

    def st_Import(self, s, st):
        return [("normal", st, None)]

    st_ImportFrom = st_Import

    def st_Expr(self, s, st):
        if isinstance(s.value, ast.Constant):
            return [("normal", st, None)]
        res = self.ev(s.value, st)
        return [("normal", s2, None) for _, s2 in res] + self.drain()

    def st_Assert(self, s, st):
        outs = []
        for c, s2 in self.cond(s.test, st):
            s3 = self.implicit_exc(s2, "AssertionError", z3.Not(c), "assert")
            outs.append(("normal", self.narrow(s3, self.narrowings(s.test, True)), None))
        return outs + self.drain()

    def st_Return(self, s, st):
        if s.value is None:
            return [("return", st, VNone())]
        res = self.ev(s.value, st)
        return [("return", s2, v) for v, s2 in res] + self.drain()

    def st_Raise(self, s, st):
        exc = s.exc
        name = None
        if isinstance(exc, ast.Call) and isinstance(exc.func, ast.Name):
            name = exc.func.id
        elif isinstance(exc, ast.Name):
            name = exc.id
        if name is None:
            raise Unsupported("raise of a computed exception")
        return [("raise", st, name)]

    def st_Break(self, s, st):
        return [("break", st, None)]

    def st_Continue(self, s, st):
        return [("continue", st, None)]

    def st_If(self, s, st):
        outs = []
        for c, s2 in self.cond(s.test, st):
            cs = z3.simplify(c)
            if not z3.is_false(cs):
                outs.extend(self.block(s.body, self.narrow(s2.assume(c), self.narrowings(s.test, True))))
            if not z3.is_true(cs):
                s_else = self.narrow(s2.assume(z3.Not(c)), self.narrowings(s.test, False))
                outs.extend(self.block(s.orelse, s_else) if s.orelse else [("normal", s_else, None)])
        return outs + self.drain()

    def st_Assign(self, s, st):
        outs = []
        for v, s2 in self.ev(s.value, st):
            states = [s2]
            for tgt in s.targets:
                states = [s4 for s3 in states for s4 in self.assign(tgt, v, s3)]
            outs.extend(("normal", s3, None) for s3 in states)
        return outs + self.drain()

    def st_AnnAssign(self, s, st):
        if s.value is None:
            return [("normal", st, None)]
        outs = []
        for v, s2 in self.ev(s.value, st):
            outs.extend(("normal", s3, None) for s3 in self.assign(s.target, v, s2))
        return outs + self.drain()

    def st_AugAssign(self, s, st):
        load = copy_load(s.target)
        node = ast.BinOp(left=load, op=s.op, right=s.value)
        ast.copy_location(node, s)
        outs = []
        for v, s2 in self.ev(node, st):
            outs.extend(("normal", s3, None) for s3 in self.assign(s.target, v, s2))
        return outs + self.drain()

    def assign(self, tgt, v: V, st: St):
        self.cur = st
        if isinstance(tgt, ast.Name):
            s2 = st.fork()
            k = self.local_kinds.get(tgt.id)
            if k and k != "any":  # "any": the sidecar lets the value keep its own shape (JSON records)
                v = self.co(v, k, st, f"local:{tgt.id}")
            s2.vars[tgt.id] = v
            s2.undefined = s2.undefined - {tgt.id}
            return [s2]
        if isinstance(tgt, (ast.Tuple, ast.List)):
            if isinstance(v, VTuple) and len(v.items) == len(tgt.elts):
                states = [st]
                for t, item in zip(tgt.elts, v.items):
                    states = [s3 for s2 in states for s3 in self.assign(t, item, s2)]
                return states
            raise Unsupported("tuple assignment from non-tuple")
        if isinstance(tgt, ast.Attribute):
            outs = []
            for base, s2 in self.ev(tgt.value, st):
                outs.append(self.store_field(base, tgt.attr, v, s2))
            return outs
        if isinstance(tgt, ast.Subscript):
            # list element store: local fresh list or heap list
            outs = []
            for base, s2 in self.ev(tgt.value, st):
                for idx, s3 in self.ev(tgt.slice, s2):
                    if not isinstance(base, VSeq) or not isinstance(idx, VInt):
                        raise Unsupported("subscript store on non-list")
                    n = z3.Length(base.t)
                    s4 = self.implicit_exc(s3, "IndexError", z3.Or(idx.t >= n, idx.t < -n), "store-index")
                    i = z3.If(idx.t < 0, n + idx.t, idx.t)
                    newt = z3.Concat(z3.SubSeq(base.t, 0, i), z3.Unit(coerce(v, base.ek).t), z3.SubSeq(base.t, i + 1, n - i - 1))
                    # theorems of the sequence theory about the updated list, spelled out element-wise
                    facts = [z3.Length(newt) == n, newt[i] == coerce(v, base.ek).t]
                    if not self.ctx.expand_quant:
                        j = z3.Int(f"j!upd{next_id()}")
                        facts.append(z3.ForAll([j], z3.Implies(z3.And(0 <= j, j < n, j != i), newt[j] == base.t[j])))
                    s4 = s4.assume(*facts)
                    outs.extend(self.write_back(tgt.value, VSeq(base.kind, newt, base.fresh), s4, base))
            return outs
        raise Unsupported(f"assignment target {type(tgt).__name__}")

    def write_back(self, target_expr, newv: VSeq, st: St, oldv: VSeq):
        """Mutation of a list denoted by target_expr (Name or self.field)."""
        if isinstance(target_expr, ast.Name):
            if target_expr.id not in self.fresh_locals and not target_expr.id.startswith("_acc") and st.vars.get("__ctor__") is None and target_expr.id not in self.c.mutates:
                self.oblige("mutates-non-fresh-list", z3.BoolVal(False), st=st, note=f"list `{target_expr.id}` is not freshly allocated on every path (frame: it may alias an argument)")
            s2 = st.fork()
            k = self.local_kinds.get(target_expr.id)
            s2.vars[target_expr.id] = coerce(newv, k) if k else newv
            return [s2]
        if isinstance(target_expr, ast.Attribute):
            outs = []
            for base, s2 in self.ev(target_expr.value, st):
                outs.append(self.store_field(base, target_expr.attr, newv, s2, mutation=True))
            return outs
        raise Unsupported("mutation of a list reached through an unsupported expression")

    def store_field(self, base: V, attr: str, v: V, st: St, mutation=False) -> St:
        if isinstance(base, VOpt):
            base = base.inner
        if not isinstance(base, VObj):
            raise Unsupported("attribute store on non-object")
        key, k, mutable = self.ctx.heap_key(base.kind, attr)
        v = self.co(v, k, st, f"store:{key}")
        ctor = st.vars.get("__ctor__")
        s2 = st.fork()
        if mutable:
            if not self.may_modify(base, attr, st):
                self.oblige(f"frame:{key}", z3.BoolVal(False), st=st, note=f"write to {key} is not in this function's modifies clause")
            h = s2.heap[key]
            if k.startswith("opt["):
                s2.heap[key] = (z3.Store(h[0], base.t, v.isnone), z3.Store(h[1], base.t, v.inner.t))
            else:
                s2.heap[key] = z3.Store(h, base.t, v.t)
            return s2
        # immutable field: only a constructor may define it, on the object under construction
        if ctor is not None and isinstance(ctor, VObj) and ctor.t.eq(base.t):
            fn, _ = self.ctx.field_fn(base.kind, attr)
            if k.startswith("opt["):
                s2.pc = s2.pc + (fn[0](base.t) == v.isnone, z3.Implies(z3.Not(v.isnone), fn[1](base.t) == v.inner.t))
            else:
                s2.pc = s2.pc + (fn(base.t) == v.t,)
            return s2
        self.oblige(f"immutable:{key}", z3.BoolVal(False), st=st, note=f"store to immutable field {key} outside its constructor")
        return s2

    def inv_facts(self, v: V, st: St, depth=0):
        """class invariants of a value that was read (parameter, field, list element, callee
        result); never of the object under construction"""
        if isinstance(v, VOpt):
            inner = self.inv_facts(v.inner, st, depth)
            return [z3.Implies(z3.Not(v.isnone), f) for f in inner]
        if not isinstance(v, VObj):
            return []
        ctor = st.vars.get("__ctor__")
        if ctor is not None and isinstance(ctor, VObj) and ctor.t.eq(v.t):
            return []
        out = []
        todo = [v.kind]
        seen = set()
        while todo:
            c = todo.pop()
            if c in seen:
                continue
            seen.add(c)
            for clause in api.INVARIANTS.get(c, []):
                out.append(Pure(self.ctx, Env({"self": v}, st.heap)).b(_parse_spec(clause)))
            info = api.CLASSES.get(c)
            if info:
                todo.extend(info.bases)
        return out

    def with_inv(self, v: V, st: St) -> St:
        fs = self.inv_facts(v, st)
        return st.assume(*fs) if fs else st

    def co(self, v: V, kind: str, st: St, what: str) -> V:
        """coerce; an Optional flowing into a non-optional slot must be not-None here"""
        if isinstance(v, VOpt) and not kind.startswith("opt["):
            self.oblige(f"not-none:{what}", z3.Not(v.isnone), st=st, note="Optional value used where a value is required")
            v = v.inner
        return coerce(v, kind)

    def may_modify(self, base: VObj, attr: str, st: St) -> bool:
        if st.vars.get("__ctor__") is not None and st.vars["__ctor__"].t.eq(base.t):
            return True
        if st.vars.get("__fresh_objs__") is not None:
            pass
        for m in self.c.modifies:
            if "." in m:
                path, f = m.rsplit(".", 1)
                if f != attr:
                    continue
                try:
                    owner = Pure(self.ctx, self.entry_env).ev(_parse_spec(path))
                except Unsupported:
                    continue
                if isinstance(owner, VObj) and (owner.t.eq(base.t) or z3.is_true(z3.simplify(owner.t == base.t))):
                    return True
        for t in st.vars.get("__fresh__", VTuple([])).items:
            if t.t.eq(base.t):
                return True
        return False

    def same_obj(self, a, b):
        return a.eq(b)

    def implied(self, st: St, fact) -> bool:
        """Cheap syntactic-ish implication test used only to simplify generated terms
        (a `False` answer is always safe)."""
        key = (tuple(p.get_id() for p in st.pc[-12:]), fact.get_id())
        if key in self._implied_cache:
            return self._implied_cache[key]
        s = z3.Solver()
        s.set("timeout", 300)
        n_ax = len(self.ctx.axioms_z3)
        for p in st.pc[n_ax:]:
            if not z3.is_quantifier(p):
                s.add(p)
        s.add(z3.Not(fact))
        r = s.check() == z3.unsat
        self._implied_cache[key] = r
        return r

    # ------------------------------------------------------------------ isinstance narrowing
    def narrowings(self, test, truth: bool):
        """(name, class) pairs that hold when `test` evaluates to `truth`"""
        if isinstance(test, ast.Call) and isinstance(test.func, ast.Name) and test.func.id == "isinstance" and truth:
            tn = test.args[1]
            tname = tn.attr if isinstance(tn, ast.Attribute) else getattr(tn, "id", None)
            if isinstance(test.args[0], ast.Name) and tname in api.CLASSES:
                return [(test.args[0].id, tname)]
            return []
        if isinstance(test, ast.UnaryOp) and isinstance(test.op, ast.Not):
            return self.narrowings(test.operand, not truth)
        if isinstance(test, ast.BoolOp):
            if (isinstance(test.op, ast.And) and truth) or (isinstance(test.op, ast.Or) and not truth):
                out = []
                for v in test.values:
                    out.extend(self.narrowings(v, truth))
                return out
        return []

    def _restore_kinds(self, s_after: St, s_before: St) -> St:
        s2 = s_after.fork()
        for k, v in s_before.vars.items():
            if isinstance(v, (VObj, VOpt)) and k in s2.vars and s2.vars[k] is not v:
                cur = s2.vars[k]
                if isinstance(cur, VObj) and isinstance(v, VObj) and cur.t.eq(v.t):
                    s2.vars[k] = v
        return s2

    def narrow(self, st: St, pairs) -> St:
        if not pairs:
            return st
        s2 = st.fork()
        for name, tname in pairs:
            v = s2.vars.get(name)
            if isinstance(v, VOpt) and isinstance(v.inner, VObj):
                v = v.inner  # isinstance is false for None
            if isinstance(v, VObj) and v.kind != tname and self.ctx._is_subclass(tname, v.kind):
                s2.vars[name] = VObj(tname, v.t)
        return s2

    # ------------------------------------------------------------------ try / except
    def st_Try(self, s, st):
        if s.finalbody or s.orelse:
            raise Unsupported("try/finally or try/else")
        caught = []
        for h in s.handlers:
            if h.type is None:
                caught.append("BaseException")
            elif isinstance(h.type, ast.Name):
                caught.append(h.type.id)
            elif isinstance(h.type, ast.Tuple):
                caught.extend(e.id for e in h.type.elts if isinstance(e, ast.Name))
            else:
                raise Unsupported("except clause")
        s2 = st.fork()
        s2.handlers = st.handlers + (tuple(caught),)
        outs = []
        for kind, so, payload in self.block(s.body, s2):
            so = so.fork()
            so.handlers = st.handlers
            if kind == "raise":
                handled = False
                for h in s.handlers:
                    names = ["BaseException"] if h.type is None else ([h.type.id] if isinstance(h.type, ast.Name) else [e.id for e in h.type.elts])
                    if any(exc_is(payload, n) for n in names):
                        if h.name:
                            so.vars[h.name] = VVal(z3.Const(f"exc!{next_id()}", sort_of("val")))
                        outs.extend(self.block(h.body, so))
                        handled = True
                        break
                if not handled:
                    outs.append((kind, so, payload))
            else:
                outs.append((kind, so, payload))
        return outs

    def catches(self, st: St, exc: str) -> bool:
        for frame in st.handlers:
            if any(exc_is(exc, h) for h in frame):
                return True
        return any(exc_is(exc, e) for e in list(self.c.raises) + list(self.c.may_raise))

    def implicit_exc(self, st: St, exc: str, cond, what: str) -> St:
        """An operation raises `exc` exactly when `cond`.  Either fork (handler / contract
        allows it) or emit the obligation that it cannot happen."""
        cs = z3.simplify(cond)
        if z3.is_false(cs):
            return st
        if self.catches(st, exc):
            self.pending.append((st.assume(cond), exc))
        else:
            self.oblige(f"no-{exc}:{what}", z3.Not(cond), st=st)
        return st.assume(z3.Not(cond))

    # ------------------------------------------------------------------ loops
    def st_While(self, s, st):
        if s.orelse:
            raise Unsupported("while/else")
        return self.loop(s, st, None)

    def st_For(self, s, st):
        if s.orelse:
            # for/else: else runs when the loop was not left by break
            pass
        return self.loop(s, st, s)

    def loop(self, node, st: St, for_node):
        ordinal = self.loop_ids[id(node)]
        spec = self.c.loops.get(ordinal, {})
        body = node.body
        outs = []
        # ---- for-loop set-up: evaluate the iterable once
        inits = [(st, None)]
        if for_node is not None:
            inits = self.for_setup(for_node, st, ordinal)
        for s0, it in inits:
            outs.extend(self.loop_core(node, ordinal, spec, body, s0, it))
        return outs + self.drain()

    def for_setup(self, node, st, ordinal):
        """-> list of (state, iterator description)."""
        it = node.iter
        res = []
        if isinstance(it, ast.Call) and isinstance(it.func, ast.Name) and it.func.id == "range":
            if not isinstance(node.target, ast.Name):
                raise Unsupported("range loop target")
            for args, s2 in self.ev_list(it.args, st):
                args = [self.co(a_, "int", s2, "range-bound") for a_ in args]
                if len(args) == 1:
                    a, b, c = VInt(0), args[0], VInt(1)
                elif len(args) == 2:
                    a, b, c = args[0], args[1], VInt(1)
                else:
                    a, b, c = args
                cs = z3.simplify(c.t)
                if not z3.is_int_value(cs) or cs.as_long() == 0:
                    raise Unsupported("range step must be a non-zero constant")
                s3 = s2.fork()
                s3.vars[node.target.id] = a
                s3.undefined = s3.undefined - {node.target.id}
                res.append((s3, ("range", node.target.id, a.t, b.t, cs.as_long())))
            return res
        if isinstance(it, ast.Call) and isinstance(it.func, ast.Name) and it.func.id == "zip" and len(it.args) == 2:
            strict = any(k.arg == "strict" and isinstance(k.value, ast.Constant) and k.value.value for k in it.keywords)
            if not (isinstance(node.target, ast.Tuple) and len(node.target.elts) == 2):
                raise Unsupported("zip target")
            for (sa, sb), s2 in [((v[0], v[1]), s_) for v, s_ in self.ev_list(list(it.args), st)]:
                if not (isinstance(sa, VSeq) and isinstance(sb, VSeq)):
                    raise Unsupported("zip of non-lists")
                if strict:
                    s2 = self.implicit_exc(s2, "ValueError", z3.Length(sa.t) != z3.Length(sb.t), "zip-strict")
                else:
                    raise Unsupported("zip without strict=True")
                idx = f"_i{ordinal}"
                s3 = s2.fork()
                s3.vars[idx] = VInt(0)
                s3.vars[f"_s{ordinal}"] = sa
                res.append((s3, ("seq", idx, sa, ("zip", node.target.elts[0], node.target.elts[1], sb))))
            return res
        enum = False
        if isinstance(it, ast.Call) and isinstance(it.func, ast.Name) and it.func.id == "enumerate" and len(it.args) == 1:
            enum = True
            it = it.args[0]
        for seqv, s2 in self.ev(it, st):
            if isinstance(seqv, VOpt):
                s2 = self.implicit_exc(s2, "TypeError", seqv.isnone, "iterate-none")
                seqv = seqv.inner
            if not isinstance(seqv, VSeq):
                raise Unsupported(f"iteration over {seqv.kind}")
            idx = f"_i{ordinal}"
            s3 = s2.fork()
            s3.vars[idx] = VInt(0)
            s3.vars[f"_s{ordinal}"] = seqv
            if enum:
                if not (isinstance(node.target, ast.Tuple) and len(node.target.elts) == 2):
                    raise Unsupported("enumerate target")
                tgt = ("enum", node.target.elts[0], node.target.elts[1])
            else:
                tgt = ("elem", node.target)
            res.append((s3, ("seq", idx, seqv, tgt)))
        return res

    def havoc_set(self, node, it):
        names, heapkeys, trace = set(), set(), False
        body_nodes = list(node.body) + ([node.test] if isinstance(node, ast.While) else [])
        for top in body_nodes:
            for n in ast.walk(top):
                if isinstance(n, ast.Name) and isinstance(n.ctx, ast.Store):
                    names.add(n.id)
                elif isinstance(n, ast.NamedExpr) and isinstance(n.target, ast.Name):
                    names.add(n.target.id)
                elif isinstance(n, ast.Attribute) and isinstance(n.ctx, ast.Store):
                    for info in api.CLASSES.values():
                        if n.attr in info.mutable:
                            heapkeys.add(f"{info.name}.{n.attr}")
                elif isinstance(n, ast.Subscript) and isinstance(n.ctx, ast.Store):
                    if isinstance(n.value, ast.Name):
                        names.add(n.value.id)
                    elif isinstance(n.value, ast.Attribute):
                        for info in api.CLASSES.values():
                            if n.value.attr in info.mutable:
                                heapkeys.add(f"{info.name}.{n.value.attr}")
                elif isinstance(n, ast.Call):
                    f = n.func
                    if isinstance(f, ast.Attribute):
                        if f.attr in MUTATORS:
                            if isinstance(f.value, ast.Name):
                                names.add(f.value.id)
                            elif isinstance(f.value, ast.Attribute):
                                for info in api.CLASSES.values():
                                    if f.value.attr in info.mutable:
                                        heapkeys.add(f"{info.name}.{f.value.attr}")
                        for q, cc in api.CONTRACTS.items():
                            if q.split(".")[-1] == f.attr:
                                for m in cc.modifies:
                                    if m == "trace":
                                        trace = True
                                    elif "." in m:
                                        fld = m.split(".", 1)[1]
                                        for info in api.CLASSES.values():
                                            if fld in info.mutable:
                                                heapkeys.add(f"{info.name}.{fld}")
                    elif isinstance(f, ast.Name):
                        if f.id in self.c.params and self.c.params[f.id] == "func":
                            trace = True
                        cc = api.CONTRACTS.get(f.id)
                        if cc:
                            for m in cc.mutates:
                                idx = list(cc.params).index(m)
                                if idx < len(n.args) and isinstance(n.args[idx], ast.Name):
                                    names.add(n.args[idx].id)
                            for m in cc.modifies:
                                if m == "trace":
                                    trace = True
        if it and it[0] == "range":
            names.add(it[1])
        if it and it[0] == "seq":
            names.add(it[1])
        names.update(self.c.havoc_extra)
        return names, heapkeys, trace

    def loop_core(self, node, ordinal, spec, body, st: St, it):
        invs = [_parse_spec(i) for i in spec.get("invariant", [])]
        dec = spec.get("decreases")
        outs = []
        self.cur = st

        def inv_env(s: St):
            vars_ = {**{k: v for k, v in s.vars.items() if not k.startswith("__")}, "trace": VSeq("list[int]", s.trace)}
            return Env(vars_, s.heap, old=self.entry_env)

        def auto_invs(s: St):
            res = []
            if it and it[0] == "range":
                _, name, a, b, c = it
                i = s.vars[name].t
                if c > 0:
                    res.append(z3.And(i >= a, (i - a) % c == 0, z3.Or(i == a, i - c < b)))
                else:
                    res.append(z3.And(i <= a, (a - i) % (-c) == 0, z3.Or(i == a, i - c > b)))
            if it and it[0] == "seq":
                _, idx, seqv, _ = it
                res.append(z3.And(s.vars[idx].t >= 0, s.vars[idx].t <= z3.Length(seqv.t)))
            return res

        def check_invs(s: St, where: str):
            env = inv_env(s)
            for k, inv in enumerate(invs):
                try:
                    g = Pure(self.ctx, env).b(inv)
                except Unsupported as e:
                    raise Unsupported(f"loop {ordinal} invariant #{k}: {e}")
                self.oblige(f"loop{ordinal}:inv#{k}:{where}", g, st=s, note=spec["invariant"][k])

        # 1. invariants hold on entry (after the ghost lemma instances placed at the loop entry)
        st = self.ghost_calls(spec.get("entry_calls", []), st)
        check_invs(st, "entry")
        # 2. havoc
        names, heapkeys, trace = self.havoc_set(node, it)
        h = st.fork()
        dropped = set()
        for n in names:
            if n in h.vars and n not in h.undefined:
                k = self.local_kinds.get(n) or h.vars[n].kind
                old = h.vars[n]
                nv = fresh(k, n)
                if isinstance(nv, VSeq) and isinstance(old, VSeq):
                    nv.fresh = old.fresh
                h.vars[n] = nv
            else:
                dropped.add(n)
        h.undefined = h.undefined | dropped
        for n in dropped:
            h.vars.pop(n, None)
        for key in heapkeys:
            cname, f = key.split(".")
            h.heap[key] = self.ctx.fresh_heap_entry(key, api.CLASSES[cname].fields[f], "hl")
        if trace:
            h.trace = z3.Const(f"trace!{next_id()}", IntSeq)
        # 3. assume invariants
        env = inv_env(h)
        assumed = [Pure(self.ctx, env).b(inv) for inv in invs] + auto_invs(h)
        for n in names:
            # class invariants hold for every object a local can denote (never the object under construction)
            if n in h.vars and not n.startswith("__"):
                assumed.extend(self.inv_facts(h.vars[n], h))
        h = h.assume(*assumed)
        # 4. loop condition
        if it is None:
            conds = self.cond(node.test, h)
        elif it[0] == "range":
            _, name, a, b, c = it
            i = h.vars[name].t
            conds = [(i < b if c > 0 else i > b, h)]
        else:
            _, idx, seqv, tgt = it
            conds = [(h.vars[idx].t < z3.Length(seqv.t), h)]
        for c, hs in conds:
            # exit path
            ex = hs.assume(z3.Not(c))
            ex = self.ghost_calls(spec.get("exit_calls", []), ex)  # ghost lemma instances on the exhausted-loop path
            if getattr(node, "orelse", None):
                outs.extend(self.block(node.orelse, ex))
            else:
                outs.append(("normal", ex, None))
            # body path
            b = hs.assume(c)
            if it and it[0] == "seq":
                _, idx, seqv, tgt = it
                elem = wrap_elem(seqv.ek, seqv.t[b.vars[idx].t])
                b = self.with_inv(elem, b)
                if tgt[0] == "elem":
                    b = self.assign(tgt[1], elem, b)[0]
                elif tgt[0] == "zip":
                    b = self.assign(tgt[1], elem, b)[0]
                    b = self.assign(tgt[2], wrap_elem(tgt[3].ek, tgt[3].t[b.vars[idx].t]), b)[0]
                else:
                    b = self.assign(tgt[1], b.vars[idx], b)[0]
                    b = self.assign(tgt[2], elem, b)[0]
            d0 = None
            if dec:
                d0 = Pure(self.ctx, inv_env(b)).ev(_parse_spec(dec)).t
                self.oblige(f"loop{ordinal}:variant-bounded", d0 >= 0, st=b, note=dec)
            elif it is None:
                self.notes.append(f"loop {ordinal} (while) has no variant: termination not shown")
            for kind, s2, payload in self.block(body, b):
                if kind in ("normal", "continue"):
                    s3 = s2
                    if it and it[0] == "range":
                        s3 = s2.fork()
                        s3.vars[it[1]] = VInt(s2.vars[it[1]].t + it[4])
                    elif it and it[0] == "seq":
                        s3 = s2.fork()
                        s3.vars[it[1]] = VInt(s2.vars[it[1]].t + 1)
                    where = "continue" if kind == "continue" else "end-of-body"
                    self.line = getattr(node, "lineno", self.line)
                    s3 = s3.assume(*self.slice_hints(invs, inv_env(b), inv_env(s3)))
                    s3 = self.ghost_calls(spec.get("calls", []), s3)
                    check_invs(s3, f"preserved@{where}")
                    if d0 is not None:
                        d1 = Pure(self.ctx, inv_env(s3)).ev(_parse_spec(dec)).t
                        self.oblige(f"loop{ordinal}:variant-decreases@{where}", d1 < d0, st=s3, note=dec)
                elif kind == "break":
                    outs.append(("normal", s2, None))
                else:
                    outs.append((kind, s2, payload))
        return outs

    def slice_hints(self, invs, env0: Env, env1: Env):
        """Valid sequence facts s[a:c] == s[a:b] + s[b:c] (a <= b <= c <= len) instantiated for
        every slice in an invariant whose bound moved during this iteration.  They are
        theorems of the sequence theory, added only to spare the solver the search."""
        hints = []
        for inv in invs:
            for n in ast.walk(inv):
                if not (isinstance(n, ast.Subscript) and isinstance(n.slice, ast.Slice) and n.slice.upper is not None):
                    continue
                try:
                    b0 = Pure(self.ctx, env0).ev(n.value)
                    b1 = Pure(self.ctx, env1).ev(n.value)
                    if isinstance(b0, VOpt):
                        b0, b1 = b0.inner, b1.inner
                    if not isinstance(b0, VSeq) or not isinstance(b1, VSeq):
                        continue
                    lo = Pure(self.ctx, env0).ev(n.slice.lower).t if n.slice.lower is not None else z3.IntVal(0)
                    u0 = Pure(self.ctx, env0).ev(n.slice.upper).t
                    u1 = Pure(self.ctx, env1).ev(n.slice.upper).t
                except (Unsupported, KindError):
                    continue
                if u0.eq(u1):
                    continue
                for S in ([b0.t] if b0.t.eq(b1.t) else [b0.t, b1.t]):
                    guard = z3.And(lo <= u0, u0 <= u1, u1 <= z3.Length(S), lo >= 0)
                    hints.append(z3.Implies(guard, z3.SubSeq(S, lo, u1 - lo) == z3.Concat(z3.SubSeq(S, lo, u0 - lo), z3.SubSeq(S, u0, u1 - u0))))
                    hints.append(z3.Implies(z3.And(guard, u1 == u0 + 1), z3.SubSeq(S, u0, 1) == z3.Unit(S[u0])))
        return hints

    # ------------------------------------------------------------------ expressions
    def cond(self, e, st: St):
        """-> list of (z3 Bool, state): truth value of e on each path."""
        return [(truthy(v), s) for v, s in self.ev(e, st)]

    def ev_list(self, exprs, st: St):
        res = [([], st)]
        for e in exprs:
            nxt = []
            for vals, s in res:
                for v, s2 in self.ev(e, s):
                    nxt.append((vals + [v], s2))
            res = nxt
        return res

    def ev(self, e, st: St):
        self.cur = st
        if hasattr(e, "lineno"):
            self.line = e.lineno
        m = getattr(self, "ev_" + type(e).__name__, None)
        if m is None:
            raise Unsupported(f"expression {type(e).__name__} at line {self.line}")
        return m(e, st)

    def ev_Constant(self, e, st):
        v = e.value
        if isinstance(v, bool):
            return [(VBool(v), st)]
        if isinstance(v, int):
            return [(VInt(v), st)]
        if v is None:
            return [(VNone(), st)]
        if isinstance(v, str):
            return [(VStrConst(v), st)]
        raise Unsupported(f"constant {v!r}")

    def ev_JoinedStr(self, e, st):
        return [(fresh("str", "fstr"), st)]

    def ev_Name(self, e, st):
        if e.id in st.undefined:
            raise Unsupported(f"variable {e.id} may be undefined after a loop")
        if e.id in st.vars:
            return [(st.vars[e.id], st)]
        if e.id in self.consts:
            return [(VInt(self.consts[e.id]), st)]
        if e.id in api.CLASSES:
            return [(VStrConst("class:" + e.id), st)]
        if e.id == "cls" and self.cls:
            return [(VStrConst("class:" + self.cls), st)]
        raise Unsupported(f"unknown name {e.id} at line {self.line}")

    def ev_NamedExpr(self, e, st):
        out = []
        for v, s in self.ev(e.value, st):
            for s2 in self.assign(e.target, v, s):
                out.append((v, s2))
        return out

    def ev_Tuple(self, e, st):
        return [(VTuple(vals), s) for vals, s in self.ev_list(e.elts, st)]

    def ev_List(self, e, st):
        # list display; supports [a, b] and [x, *ys] / [*xs, y]
        res = [([], st)]
        for el in e.elts:
            nxt = []
            star = isinstance(el, ast.Starred)
            for parts, s in res:
                for v, s2 in self.ev(el.value if star else el, s):
                    nxt.append((parts + [(star, v)], s2))
            res = nxt
        out = []
        for parts, s in res:
            if not parts:
                out.append((VSeq("list[?]", None, fresh=True), s))
                continue
            ek = None
            for star, v in parts:
                ek = ek or (v.ek if star else v.kind)
            terms = []
            for star, v in parts:
                if star:
                    if not isinstance(v, VSeq):
                        raise Unsupported("star of non-list")
                    terms.append(v.t)
                else:
                    terms.append(z3.Unit(coerce(v, ek).t))
            t = z3.Concat(*terms) if len(terms) > 1 else terms[0]
            out.append((VSeq(f"list[{ek}]", t, fresh=True), s))
        return out

    def ev_Dict(self, e, st):
        keys = []
        for k in e.keys:
            if k is None:
                keys.append(None)  # {**other, ...}: the other record's fields, in order, overridden by later keys
                continue
            if not (isinstance(k, ast.Constant) and isinstance(k.value, str)):
                raise Unsupported("dict display with non-constant keys")
            keys.append(k.value)
        out = []
        for vals, s in self.ev_list(e.values, st):
            fields = {}
            for k, v in zip(keys, vals):
                if k is None:
                    if not isinstance(v, VRec):
                        raise Unsupported("** of something that is not a record with constant keys")
                    fields.update(v.fields)
                else:
                    fields[k] = v
            out.append((VRec(fields), s))
        return out

    def ev_UnaryOp(self, e, st):
        out = []
        for v, s in self.ev(e.operand, st):
            if isinstance(e.op, ast.Not):
                out.append((VBool(z3.Not(truthy(v))), s))
            elif isinstance(e.op, ast.USub):
                out.append((VInt(-coerce(v, "int").t), s))
            else:
                raise Unsupported("unary operator")
        return out

    def ev_BinOp(self, e, st):
        out = []
        for (a, b), s in [((vs[0], vs[1]), s) for vs, s in self.ev_list([e.left, e.right], st)]:
            self.cur = s
            if isinstance(a, VOpt):
                s = self.implicit_exc(s, "TypeError", a.isnone, "operand-none")
                a = a.inner
            if isinstance(b, VOpt):
                s = self.implicit_exc(s, "TypeError", b.isnone, "operand-none")
                b = b.inner
            self.cur = s
            out.append((binop(e.op, a, b, self), s))
        return out

    def ev_BoolOp(self, e, st):
        is_and = isinstance(e.op, ast.And)
        res = self.ev(e.values[0], st)
        for nxt_e in e.values[1:]:
            new = []
            for v, s in res:
                c = truthy(v)
                go = c if is_and else z3.Not(c)  # condition under which the next operand is evaluated
                gs = z3.simplify(go)
                # value kept when the next operand is NOT evaluated; `x or y` keeps a truthy
                # (hence non-None) x
                keep = v.inner if (not is_and and isinstance(v, VOpt)) else v
                if z3.is_false(gs):
                    new.append((keep, s))
                    continue
                npend = len(self.pending)
                pairs = []
                for prev_ast in e.values[: e.values.index(nxt_e)]:
                    pairs.extend(self.narrowings(prev_ast, is_and))  # all earlier operands were true (and) / false (or)
                s_go = self.narrow(s.assume(go), pairs)
                narrowed = s_go.vars != s.vars
                sub = self.ev(nxt_e, s_go)
                if narrowed:
                    # narrowing is local to the operand: restore the variable kinds
                    sub = [(v_, self._restore_kinds(s_, s)) for v_, s_ in sub]
                if z3.is_true(gs):
                    new.extend(sub)
                    continue
                if len(sub) == 1 and isinstance(sub[0][0], VSeq) and sub[0][0].t is None and isinstance(keep, VSeq):
                    sub = [(coerce(sub[0][0], keep.kind), sub[0][1])]
                if (
                    len(sub) == 1
                    and mergeable(keep, sub[0][0])
                    and len(self.pending) == npend
                    and _same_effects(s, sub[0][1])
                ):
                    w, s2 = sub[0]
                    extras = s2.pc[len(s.pc) + 1 :]
                    s3 = s.fork()
                    if extras:
                        s3.pc = s3.pc + (z3.Implies(go, z3.And(*extras)),)
                    if isinstance(keep, VBool) and isinstance(w, VBool):
                        val = VBool(z3.And(keep.t, w.t) if is_and else z3.Or(keep.t, w.t))
                    else:
                        val = ite(go, w, keep)
                    new.append((val, s3))
                else:
                    new.append((keep, s.assume(z3.Not(go))))
                    new.extend(sub)
            res = new
        return res

    def ev_IfExp(self, e, st):
        out = []
        for c, s in self.cond(e.test, st):
            cs = z3.simplify(c)
            if z3.is_true(cs):
                out.extend(self.ev(e.body, s))
                continue
            if z3.is_false(cs):
                out.extend(self.ev(e.orelse, s))
                continue
            npend = len(self.pending)
            a = self.ev(e.body, s.assume(c))
            b = self.ev(e.orelse, s.assume(z3.Not(c)))
            if (
                len(a) == 1
                and len(b) == 1
                and mergeable(a[0][0], b[0][0])
                and len(self.pending) == npend
                and _same_effects(s, a[0][1])
                and _same_effects(s, b[0][1])
            ):
                ea = a[0][1].pc[len(s.pc) + 1 :]
                eb = b[0][1].pc[len(s.pc) + 1 :]
                s3 = s.fork()
                if ea:
                    s3.pc = s3.pc + (z3.Implies(c, z3.And(*ea)),)
                if eb:
                    s3.pc = s3.pc + (z3.Implies(z3.Not(c), z3.And(*eb)),)
                out.append((ite(c, a[0][0], b[0][0]), s3))
            else:
                out.extend(a)
                out.extend(b)
        return out

    def ev_Compare(self, e, st):
        out = []
        for vals, s in self.ev_list([e.left] + list(e.comparators), st):
            conds = []
            for op, a, b in zip(e.ops, vals, vals[1:]):
                if isinstance(op, (ast.Lt, ast.LtE, ast.Gt, ast.GtE)):
                    self.cur = s
                    if isinstance(a, VOpt):
                        s = self.implicit_exc(s, "TypeError", a.isnone, "compare-none")
                        a = a.inner
                    if isinstance(b, VOpt):
                        s = self.implicit_exc(s, "TypeError", b.isnone, "compare-none")
                        b = b.inner
                conds.append(compare(op, a, b))
            out.append((VBool(z3.And(conds) if len(conds) > 1 else conds[0]), s))
        return out

    def ev_Attribute(self, e, st):
        # module alias . name (pm_node.is_text / pm_node.TextNode) is resolved at the call
        if isinstance(e.value, ast.Name) and e.value.id not in st.vars and e.value.id in api.CLASSES:
            key = f"{e.value.id}.{e.attr}"
            if key in CLASS_ATTRS:
                return [(CLASS_ATTRS[key](), st)]
            raise Unsupported(f"class attribute {key}")
        if isinstance(e.value, ast.Name) and e.value.id == "cls" and self.cls:
            key = f"{self.cls}.{e.attr}"
            if key in CLASS_ATTRS:
                return [(CLASS_ATTRS[key](), st)]
            raise Unsupported(f"class attribute {key}")
        out = []
        for base, s in self.ev(e.value, st):
            self.cur = s
            if isinstance(base, VNone):
                s = self.implicit_exc(s, "AttributeError", z3.BoolVal(True), f"none.{e.attr}")
                continue
            if isinstance(base, VOpt):
                s = self.implicit_exc(s, "AttributeError", base.isnone, f"none.{e.attr}")
                base = base.inner
            if isinstance(base, VVal) and e.attr == "args":
                # the argument tuple of a caught exception: one message string (every raise site of the
                # library's own exception classes passes a message)
                self.notes.append("exception .args modelled as a one-element tuple (message)")
                out.append((VTuple([fresh("str", "excmsg")]), s))
                continue
            if isinstance(base, VObj):
                pc = self.find_contract(base.kind, e.attr)
                if pc is not None and pc.is_property:
                    out.extend(self.call_contract(pc, [base], {}, s))
                    continue
            fv = read_field(self.ctx, s.heap, base, e.attr)
            out.append((fv, self.with_inv(fv, s)))
        return out

    def ev_Subscript(self, e, st):
        out = []
        if isinstance(e.slice, ast.Slice):
            if e.slice.step is not None:
                raise Unsupported("slice step")
            parts = [e.value] + [x for x in (e.slice.lower, e.slice.upper) if x is not None]
            for vals, s in self.ev_list(parts, st):
                base = vals[0]
                if isinstance(base, VOpt):
                    s = self.implicit_exc(s, "TypeError", base.isnone, "slice-none")
                    base = base.inner
                if not isinstance(base, VSeq):
                    raise Unsupported(f"slice of {base.kind}")
                n = z3.Length(base.t)
                k = 1
                lo = z3.IntVal(0)
                hi = n
                def bound(v, default):
                    # a None bound means "from the start" / "to the end"
                    if isinstance(v, VNone):
                        return default
                    if isinstance(v, VOpt):
                        return z3.If(v.isnone, default, _clamp(v.inner.t, n))
                    return _clamp(v.t, n)

                if e.slice.lower is not None:
                    lo = bound(vals[k], z3.IntVal(0))
                    k += 1
                if e.slice.upper is not None:
                    hi = bound(vals[k], n)
                ln = z3.If(hi - lo > 0, hi - lo, 0)
                out.append((VSeq(base.kind, z3.SubSeq(base.t, lo, ln), fresh=True), s))
            return out
        for (base, idx), s in [((vs[0], vs[1]), s) for vs, s in self.ev_list([e.value, e.slice], st)]:
            self.cur = s
            if isinstance(base, VOpt):
                s = self.implicit_exc(s, "TypeError", base.isnone, "subscript-none")
                base = base.inner
            if isinstance(base, VRec):
                if not isinstance(idx, VStrConst) or idx.s not in base.fields:
                    raise Unsupported("record subscript")
                out.append((base.fields[idx.s], s))
                continue
            if isinstance(base, VTuple):
                i = z3.simplify(idx.t)
                if not z3.is_int_value(i):
                    raise Unsupported("tuple subscript")
                out.append((base.items[i.as_long()], s))
                continue
            if isinstance(base, VSeq) and isinstance(idx, VOpt):
                idx = self.co(idx, "int", s, "index")
            if isinstance(base, VSeq) and base.kind.startswith("list3[") and isinstance(idx, (VInt, VBool)):
                # flat list read as triples: the component is the index modulo 3 (must be static)
                from .kinds import triple_sort

                dt, ks = triple_sort(base.kind)
                i = coerce(idx, "int").t
                n3 = 3 * z3.Length(base.t)
                isim = z3.simplify(i)
                if z3.is_int_value(isim) and isim.as_long() < 0:
                    s = self.implicit_exc(s, "IndexError", i < -n3, "index")
                    i = n3 + i
                else:
                    s = self.implicit_exc(s, "IndexError", z3.Or(i >= n3, i < 0), "index")
                comp = z3.simplify(i % 3)
                if not z3.is_int_value(comp):
                    raise Unsupported("index into a list of triples whose component (index mod 3) is not static")
                c = comp.as_long()
                q = z3.simplify((i - c) / 3)
                ev_ = wrap_elem(ks[c], dt.accessor(0, c)(base.t[q]))
                out.append((ev_, self.with_inv(ev_, s)))
                continue
            if isinstance(base, VSeq) and isinstance(idx, (VInt, VBool)):
                i = coerce(idx, "int").t
                n = z3.Length(base.t)
                s = self.implicit_exc(s, "IndexError", z3.Or(i >= n, i < -n), "index")
                isim = z3.simplify(i)
                if z3.is_int_value(isim):
                    j = i if isim.as_long() >= 0 else n + i
                elif self.implied(s, i >= 0):
                    j = i
                else:
                    j = z3.If(i < 0, n + i, i)
                ev_ = wrap_elem(base.ek, base.t[j])
                out.append((ev_, self.with_inv(ev_, s)))
                continue
            raise Unsupported(f"subscript of {base.kind} by {idx.kind}")
        return out

    def ev_ListComp(self, e, st):
        return self.comprehension(e, st, "list")

    def ev_GeneratorExp(self, e, st):
        raise Unsupported("bare generator expression")

    def comprehension(self, e, st, mode, default_expr=None):
        """Desugar [elt for x in it if c] / any / all / next / sum into a loop cut by
        the sidecar invariant of that loop ordinal."""
        if len(e.generators) != 1 or e.generators[0].is_async:
            raise Unsupported("nested comprehension")
        g = e.generators[0]
        acc = f"_acc{self.loop_ids[id(e)]}"
        test = None
        for c in g.ifs:
            test = c if test is None else ast.BoolOp(op=ast.And(), values=[test, c])

        def S(src):
            return ast.parse(src).body

        if mode == "list":
            init_v = None  # needs element kind: decided by sidecar local kind
            k = self.c.locals.get(acc)
            if not k:
                raise Unsupported(f"list comprehension needs a kind for {acc} in the contract's locals")
            init = VSeq(k, z3.Empty(sort_of(k)), fresh=True)
            app = ast.Expr(ast.Call(ast.Attribute(ast.Name(acc, ast.Load()), "append", ast.Load()), [e.elt], []))
            inner = [app]
            final = None
        elif mode in ("any", "all"):
            init = VBool(mode == "all")
            setv = ast.Assign([ast.Name(acc, ast.Store())], ast.Constant(mode == "any"))
            cond_e = e.elt if mode == "any" else ast.UnaryOp(ast.Not(), e.elt)
            inner = [ast.If(cond_e, [setv, ast.Break()], [])]
        elif mode == "next":
            k = self.c.locals.get(acc)
            if not k:
                raise Unsupported(f"next() needs a kind for {acc} in the contract's locals")
            init = None
            setv = ast.Assign([ast.Name(acc, ast.Store())], e.elt)
            inner = [setv, ast.Break()]
        elif mode == "sum":
            init = VInt(0)
            inner = [ast.AugAssign(ast.Name(acc, ast.Store()), ast.Add(), e.elt)]
        else:
            raise Unsupported(mode)
        body = [ast.If(test, inner, [])] if test is not None else inner
        loop = ast.For(target=g.target, iter=g.iter, body=body, orelse=[])
        ast.copy_location(loop, e)
        for n in ast.walk(loop):
            if not hasattr(n, "lineno"):
                n.lineno = e.lineno
                n.col_offset = 0
        self.loop_ids[id(loop)] = self.loop_ids[id(e)]
        out = []
        inits = []
        if mode == "next":
            for dv, s0 in self.ev(default_expr, st):
                inits.append((coerce(dv, self.c.locals[acc]), s0))
        else:
            inits.append((init, st))
        for iv, s0 in inits:
            s1 = s0.fork()
            s1.vars[acc] = iv
            saved = {n.id: s1.vars.get(n.id) for n in ast.walk(g.target) if isinstance(n, ast.Name)}
            for kind, s2, payload in self.loop(loop, s1, loop):
                if kind == "normal":
                    s3 = s2.fork()
                    v = s3.vars.pop(acc)
                    for n, old in saved.items():
                        if old is None:
                            s3.vars.pop(n, None)
                        else:
                            s3.vars[n] = old
                    s3.vars.pop(f"_i{self.loop_ids[id(e)]}", None)
                    s3.vars.pop(f"_s{self.loop_ids[id(e)]}", None)
                    s3.undefined = s3.undefined - set(saved) - {acc}
                    out.append((v, s3))
                elif kind == "raise":
                    self.pending.append((s2, payload))
                else:
                    raise Unsupported("control flow out of a comprehension")
        return out

    # ------------------------------------------------------------------ calls
    def find_contract(self, cname: str, meth: str):
        todo = [cname]
        while todo:
            c = todo.pop(0)
            q = f"{c}.{meth}"
            if q in api.CONTRACTS:
                return api.CONTRACTS[q]
            info = api.CLASSES.get(c)
            if info:
                todo.extend(info.bases)
        # a method that only one declared subclass has (TextNode.with_text called on a value of static
        # kind Node): dispatch there; the call site is obliged to show the receiver is of that class
        subs = [i.name for i in api.CLASSES.values() if f"{i.name}.{meth}" in api.CONTRACTS and self.ctx._is_subclass(i.name, cname) and i.name != cname]
        if len(subs) == 1:
            return api.CONTRACTS[f"{subs[0]}.{meth}"]
        return None

    def ev_Call(self, e, st):
        f = e.func
        kw = {k.arg: k.value for k in e.keywords}
        if any(k is None for k in kw):
            raise Unsupported("**kwargs")
        # ---- builtins and module-level functions
        if isinstance(f, ast.Name):
            name = f.id
            if name in st.vars and isinstance(st.vars[name], VFunc):
                return self.call_callback(name, e.args, st)
            if name == "cast":
                return self.ev(e.args[1], st)
            if name in ("any", "all", "sum") and len(e.args) == 1 and isinstance(e.args[0], ast.GeneratorExp):
                return self.comprehension(e.args[0], st, name)
            if name == "next" and len(e.args) == 2 and isinstance(e.args[0], ast.GeneratorExp):
                return self.comprehension(e.args[0], st, "next", e.args[1])
            if name == "getattr" and len(e.args) == 3 and isinstance(e.args[1], ast.Constant):
                node = ast.Attribute(e.args[0], e.args[1].value, ast.Load())
                ast.copy_location(node, e)
                self.notes.append(f"getattr(x, {e.args[1].value!r}, default) treated as attribute access (attribute assumed present)")
                return self.ev(node, st)
            if name == "isinstance":
                out = []
                for v, s in self.ev(e.args[0], st):
                    tn = e.args[1]
                    tname = tn.attr if isinstance(tn, ast.Attribute) else getattr(tn, "id", None)
                    if tname is None:
                        raise Unsupported("isinstance with tuple of types")
                    out.append((VBool(self.isinstance_of(v, tname)), s))
                return out
            if name in BUILTINS:
                out = []
                for vals, s in self.ev_list(e.args, st):
                    self.cur = s
                    out.append((BUILTINS[name](self, vals, s), s))
                return out
            if name in api.CLASSES:
                return self.construct(name, e.args, kw, st)
            if name == "cls" and self.cls in api.CLASSES:
                return self.construct(self.cls, e.args, kw, st)
            if name in self.c.inline:
                return self.inline_named(name, e.args, kw, st)
            if name in api.CONTRACTS:
                out = []
                for vals, s in self.ev_list(list(e.args), st):
                    for kvals, s2 in self.ev_list(list(kw.values()), s):
                        out.extend(self.call_contract(api.CONTRACTS[name], vals, dict(zip(kw.keys(), kvals)), s2, arg_asts=list(e.args)))
                return out
            raise Unsupported(f"call of {name} (no contract; A10) at line {self.line}")
        if isinstance(f, ast.Attribute) and f.attr == "__class__" and isinstance(f.value, ast.Name) and isinstance(st.vars.get(f.value.id), VObj):
            # self.__class__(...): an instance of the receiver's (static) class; the sidecar states the
            # dynamic-dispatch assumption (body_requires) under which the static class is the dynamic one
            self.notes.append(f"{f.value.id}.__class__(...) constructs a {st.vars[f.value.id].kind} (static class of the receiver)")
            return self.construct(st.vars[f.value.id].kind, e.args, kw, st)
        if isinstance(f, ast.Attribute):
            # module alias: pm_node.is_text(x)
            if isinstance(f.value, ast.Name) and f.value.id not in st.vars and f.value.id not in api.CLASSES and f.value.id != "cls":
                if f.attr in api.CONTRACTS:
                    out = []
                    for vals, s in self.ev_list(list(e.args), st):
                        out.extend(self.call_contract(api.CONTRACTS[f.attr], vals, {}, s))
                    return out
                raise Unsupported(f"call of {f.value.id}.{f.attr} (no contract; A10)")
            # super().__init__()
            if isinstance(f.value, ast.Call) and isinstance(f.value.func, ast.Name) and f.value.func.id == "super":
                if f.attr == "__init__":
                    return self.super_init(e.args, kw, st)
                raise Unsupported("super() call")
            # classmethod / staticmethod through the class: Fragment.from_(x), cls.from_array(x)
            if isinstance(f.value, ast.Name) and (f.value.id in api.CLASSES or f.value.id == "cls") and f.value.id not in st.vars:
                cname = self.cls if f.value.id == "cls" else f.value.id
                cc = self.find_contract(cname, f.attr)
                if cc is None:
                    raise Unsupported(f"call of {cname}.{f.attr} (no contract; A10)")
                out = []
                for vals, s in self.ev_list(list(e.args), st):
                    for kvals, s2 in self.ev_list(list(kw.values()), s):
                        out.extend(self.call_contract(cc, vals, dict(zip(kw.keys(), kvals)), s2))
                return out
            # <type>.spec.get("<flag>") used as a truth value: an uninterpreted flag of the node type
            if (f.attr == "get" and isinstance(f.value, ast.Attribute) and f.value.attr == "spec" and e.args
                    and isinstance(e.args[0], ast.Constant) and isinstance(e.args[0].value, str) and e.args[0].value.isidentifier() and len(e.args) == 1):
                out = []
                for tv, s in self.ev(f.value.value, st):
                    if isinstance(tv, VOpt):
                        s = self.implicit_exc(s, "AttributeError", tv.isnone, "none.spec")
                        tv = tv.inner
                    fn = self.ctx.funcs.setdefault("spec_" + e.args[0].value, z3.Function("spec_" + e.args[0].value, Obj, BOOL))
                    out.append((VBool(fn(tv.t)), s))
                return out
            out = []
            for recv, s in self.ev(f.value, st):
                self.cur = s
                if isinstance(recv, VNone):
                    self.implicit_exc(s, "AttributeError", z3.BoolVal(True), f"none.{f.attr}()")
                    continue
                if isinstance(recv, VOpt):
                    s = self.implicit_exc(s, "AttributeError", recv.isnone, f"none.{f.attr}()")
                    recv = recv.inner
                if isinstance(recv, VSeq):
                    out.extend(self.seq_method(f, recv, e.args, s))
                    continue
                if isinstance(recv, VRec) and f.attr == "get":
                    for vals, s2 in self.ev_list(list(e.args), s):
                        key = vals[0]
                        if isinstance(key, VStrConst) and key.s in recv.fields:
                            out.append((recv.fields[key.s], s2))
                        elif isinstance(key, VStrConst) and len(vals) == 1:
                            out.append((VNone(), s2))  # a key the record does not have
                        else:
                            raise Unsupported("record .get")
                    continue
                if isinstance(recv, VObj):
                    cc = self.find_contract(recv.kind, f.attr)
                    if cc is None:
                        raise Unsupported(f"call of {recv.kind}.{f.attr} (no contract; A10) at line {self.line}")
                    owner = cc.qualname.split(".")[0]
                    if owner != recv.kind and self.ctx._is_subclass(owner, recv.kind):
                        self.oblige(f"receiver-class:{cc.qualname}", self.isinstance_of(recv, owner), st=s, note=f"method of subclass {owner} called on a {recv.kind}")
                        recv = VObj(owner, recv.t)
                    for vals, s2 in self.ev_list(list(e.args), s):
                        for kvals, s3 in self.ev_list(list(kw.values()), s2):
                            out.extend(self.call_contract(cc, [recv] + vals, dict(zip(kw.keys(), kvals)), s3))
                    continue
                raise Unsupported(f"method {f.attr} on {recv.kind} at line {self.line}")
            return out
        raise Unsupported("call of a computed function")

    def isinstance_of(self, v: V, tname: str):
        if isinstance(v, VOpt):
            return z3.And(z3.Not(v.isnone), self.isinstance_of(v.inner, tname))
        if isinstance(v, VNone):
            return z3.BoolVal(False)
        if tname in ("int",):
            return z3.BoolVal(isinstance(v, (VInt, VBool)))
        if tname == "str":
            return z3.BoolVal(isinstance(v, (VSeq, VStrConst)) and v.kind in ("str", "strconst"))
        if tname == "list":
            return z3.BoolVal(isinstance(v, VSeq) and v.kind != "str")
        if isinstance(v, VObj):
            if v.kind == tname:
                return z3.BoolVal(True)
            fn = self.ctx.funcs.setdefault(f"isinstance_{tname}", z3.Function(f"isinstance_{tname}", Obj, BOOL))
            return fn(v.t)
        return z3.BoolVal(False)

    def call_callback(self, name, args, st):
        out = []
        for vals, s in self.ev_list(list(args), st):
            s2 = s.fork()
            t = s2.trace
            for v in vals:
                if not isinstance(v, VInt):
                    raise Unsupported("callback argument kinds other than int are not traced")
                t = z3.Concat(t, z3.Unit(v.t))
            s2.trace = t
            out.append((fresh("val", "cbres"), s2))
        return out

    def seq_method(self, f, recv: VSeq, args, st):
        out = []
        name = f.attr
        if name == "extend" and recv.kind.startswith("list3[") and len(args) == 1 and isinstance(args[0], ast.List) and len(args[0].elts) == 3:
            from .kinds import triple_sort

            dt, ks = triple_sort(recv.kind)
            for vals, s in self.ev_list(list(args[0].elts), st):
                self.cur = s
                comps = [self.co(v, k, s, "triple-component") for v, k in zip(vals, ks)]
                add = z3.Unit(dt.constructor(0)(*[c_.t for c_ in comps]))
                newv = VSeq(recv.kind, z3.Concat(recv.t, add), recv.fresh)
                n0 = z3.Length(recv.t)
                j = z3.Int(f"j!app{next_id()}")
                facts = [z3.Length(newv.t) == n0 + 1, z3.SubSeq(newv.t, 0, n0) == recv.t, newv.t[n0] == add.arg(0)]
                if not self.ctx.expand_quant:
                    facts.append(z3.ForAll([j], z3.Implies(z3.And(0 <= j, j < n0), newv.t[j] == recv.t[j])))
                s = s.assume(*facts)
                for s2 in self.write_back(f.value, newv, s, recv):
                    out.append((VNone(), s2))
            return out
        if name in ("append", "extend"):
            for vals, s in self.ev_list(list(args), st):
                self.cur = s
                if recv.t is None:  # empty display of unknown element kind
                    ek = vals[0].kind if name == "append" else vals[0].ek
                    recv = VSeq(f"list[{ek}]", z3.Empty(sort_of(f"list[{ek}]")), fresh=True)
                add = z3.Unit(coerce(vals[0], recv.ek).t) if name == "append" else vals[0].t
                newv = VSeq(recv.kind, z3.Concat(recv.t, add), recv.fresh)
                # theorems of the sequence theory about the new list, spelled out for the solver
                j = z3.Int(f"j!app{next_id()}")
                n0 = z3.Length(recv.t)
                facts = [
                    z3.Length(newv.t) == n0 + z3.Length(add),
                    z3.ForAll([j], z3.Implies(z3.And(0 <= j, j < n0), newv.t[j] == recv.t[j])),
                    z3.SubSeq(newv.t, 0, n0) == recv.t,
                ]
                if name == "append":
                    facts.append(newv.t[n0] == coerce(vals[0], recv.ek).t)
                if self.ctx.expand_quant:
                    facts = [facts[0], facts[2]] + facts[3:]
                s = s.assume(*facts)
                for s2 in self.write_back(f.value, newv, s, recv):
                    out.append((VNone(), s2))
            return out
        if name == "copy" and not args:
            return [(VSeq(recv.kind, recv.t, fresh=True), st)]
        if name == "encode" and recv.kind == "str":
            # text.encode("utf-16-le"): the byte sequence of the UTF-16 units, an uninterpreted
            # function of the string constrained by the sidecar's (trusted, A7) axioms
            if not (len(args) == 1 and isinstance(args[0], ast.Constant) and args[0].value == "utf-16-le") or "ub" not in api.ABSTRACT:
                raise Unsupported("str.encode other than encode('utf-16-le') with a declared abstract ub")
            return [(VSeq("list[int]", self.ctx.abstract_fn("ub")(recv.t), fresh=True), st)]
        if name == "startswith" and recv.kind == "str":
            for vals, s in self.ev_list(list(args), st):
                p = vals[0] if isinstance(vals[0], VSeq) else str_const(vals[0].s)
                fn = self.ctx.funcs.setdefault("prefix_of", z3.Function("prefix_of", IntSeq, IntSeq, BOOL))
                out.append((VBool(fn(p.t, recv.t)), s))  # uninterpreted; see Pure.prefix_of
            return out
        raise Unsupported(f"list/str method {name}")

    def bind_params(self, cc: api.Contract, vals, kwvals, st):
        fd = self.ctx.find_def(cc.file, cc.qualname) if not cc.trusted or True else None
        names = list(cc.params)
        env = {}
        for n, v in zip(names, vals):
            env[n] = v
        for k, v in kwvals.items():
            env[k] = v
        missing = [n for n in names if n not in env]
        if missing:
            if fd is None:
                raise Unsupported(f"defaults of {cc.qualname} unavailable")
            a = fd.args
            pos = [x.arg for x in a.posonlyargs + a.args]
            defaults = dict(zip(pos[len(pos) - len(a.defaults):], a.defaults))
            for n in missing:
                d = defaults.get(n)
                if d is None:
                    raise Unsupported(f"argument {n} of {cc.qualname} missing")
                dv = self.ev(d, st)
                env[n] = dv[0][0]
        for n in names:
            v = env[n]
            k = cc.params[n]
            if isinstance(v, VOpt) and not k.startswith("opt["):
                self.oblige(f"arg-not-none:{cc.qualname}.{n}", z3.Not(v.isnone), st=st, note="None passed where a value is required")
                v = v.inner
            try:
                env[n] = coerce(v, k)
            except KindError as ex:
                raise Unsupported(f"argument {n} of {cc.qualname}: {ex}")
        return env

    def call_contract(self, cc: api.Contract, vals, kwvals, st: St, arg_asts=None):
        self.cur = st
        # ghost lemma / axiom instances placed right before calls of this callee (calls_func)
        st = self.ghost_calls(self.c.calls_func.get(cc.qualname, []), st)
        self.cur = st
        params = self.bind_params(cc, vals, kwvals, st)
        pre_env = Env({**params, "trace": VSeq("list[int]", st.trace)}, st.heap)
        for i, r in enumerate(cc.requires):
            g = Pure(self.ctx, pre_env).b(_parse_spec(r))
            self.oblige(f"pre:{cc.qualname}#{i}", g, st=st, note=r)
        if cc.qualname == self.c.qualname:
            if not cc.decreases:
                self.oblige("recursion-without-measure", z3.BoolVal(False), st=st)
            else:
                d = Pure(self.ctx, pre_env).ev(_parse_spec(cc.decreases)).t
                self.oblige("recursion-measure-decreases", z3.And(d < self.entry_dec, self.entry_dec >= 0), st=st, note=cc.decreases)
        s = st
        for exc, cnd in cc.raises.items():
            c = Pure(self.ctx, pre_env).b(_parse_spec(cnd))
            s = self.implicit_exc(s, exc, c, f"call:{cc.qualname}")
        for exc, cnd in cc.may_raise.items():
            c = Pure(self.ctx, pre_env).b(_parse_spec(cnd))
            if self.catches(s, exc):
                self.pending.append((s.assume(c), exc))
            else:
                self.oblige(f"no-{exc}:call:{cc.qualname}", z3.Not(c), st=s, note="callee may raise here")
        # frame
        s2 = s.fork()
        for m in cc.modifies:
            if m == "trace":
                s2.trace = z3.Const(f"trace!{next_id()}", IntSeq)
                continue
            path, fld = m.rsplit(".", 1)
            obj = Pure(self.ctx, pre_env).ev(_parse_spec(path))
            if isinstance(obj, VOpt):
                obj = obj.inner
            key, k, mutable = self.ctx.heap_key(obj.kind, fld)
            if not mutable:
                raise Unsupported(f"modifies names immutable field {key}")
            if not self.may_modify(obj, fld, s2):
                self.oblige(f"frame:{key}:via:{cc.qualname}", z3.BoolVal(False), st=s2, note=f"callee modifies {m}, caller may not")
            nv = fresh(k, "mod")
            h = s2.heap[key]
            if k.startswith("opt["):
                s2.heap[key] = (z3.Store(h[0], obj.t, nv.isnone), z3.Store(h[1], obj.t, nv.inner.t))
            else:
                s2.heap[key] = z3.Store(h, obj.t, nv.t)
        out = []
        for case in cc.cases:
            when = Pure(self.ctx, pre_env).b(_parse_spec(case["when"]))
            ws = z3.simplify(when)
            if z3.is_false(ws):
                continue
            s3 = s2.assume(when)
            rk = case.get("returns", "none")
            rv = fresh(rk, "ret") if rk != "none" else VNone()
            if isinstance(rv, VSeq):
                rv.fresh = bool(case.get("fresh_result"))
            post_params = dict(params)
            mutated_locals = []
            for m in cc.mutates:
                idx = list(cc.params).index(m)
                a_ast = arg_asts[idx] if (arg_asts is not None and idx < len(arg_asts)) else None
                if not isinstance(a_ast, ast.Name):
                    raise Unsupported(f"{cc.qualname} mutates its parameter {m}: the argument must be a local list variable")
                if a_ast.id not in self.fresh_locals and a_ast.id not in self.c.mutates:
                    self.oblige(f"frame:list:{a_ast.id}:via:{cc.qualname}", z3.BoolVal(False), st=s3, note=f"callee mutates the list `{a_ast.id}`, which is not freshly allocated here (it may alias an argument)")
                nv = fresh(cc.params[m], m + "_after")
                if isinstance(nv, VSeq) and isinstance(params[m], VSeq):
                    nv.fresh = params[m].fresh
                post_params[m] = nv
                mutated_locals.append((a_ast.id, nv))
            if mutated_locals:
                s3 = s3.fork()
                for ln, nv in mutated_locals:
                    s3.vars[ln] = nv
            post_env = Env({**post_params, "trace": VSeq("list[int]", s3.trace)}, s3.heap, old=pre_env)
            assumed = []
            clauses = case.get("ensures", [])
            if cc.virtual and not (params.get("self") is not None and getattr(params.get("self"), "kind", None) != cc.qualname.split(".")[0]):
                clauses = cc.virtual_ensures
            for clause in list(clauses) + list(cc.defines):
                f = Pure(self.ctx, post_env, rv).b(_parse_spec(clause))
                assumed.append(f)
                assumed.extend(seq_facts(f, bool(self.ctx.expand_quant)))
            if not cc.qualname.endswith(".__init__"):
                assumed.extend(self.inv_facts(rv, s3))
            out.append((rv, s3.assume(*assumed)))
        return out

    # ------------------------------------------------------------------ inlining
    def construct(self, cname, args, kw, st):
        info = api.CLASSES[cname]
        cc = api.CONTRACTS.get(f"{cname}.__init__")
        if cc is not None:
            out = []
            for vals, s in self.ev_list(list(args), st):
                for kvals, s2 in self.ev_list(list(kw.values()), s):
                    o = fresh(cname, "new" + cname)
                    others = [v.t for v in s2.vars.values() if isinstance(v, VObj)]
                    s3 = s2.assume(*[o.t != t for t in others]) if others else s2.fork()
                    fr = s3.vars.get("__fresh__", VTuple([]))
                    s3.vars["__fresh__"] = VTuple(fr.items + [o])
                    for _, s4 in self.call_contract(cc, [o] + vals, dict(zip(kw.keys(), kvals)), s3):
                        self.check_class_invariant(o, s4)
                        out.append((o, s4))
            return out
        init = None
        todo = [cname]
        while todo and init is None:
            c = todo.pop(0)
            ci = api.CLASSES.get(c)
            if ci is None:
                continue
            init = self.ctx.find_def(ci.file, f"{c}.__init__")
            todo.extend(ci.bases)
        out = []
        for vals, s in self.ev_list(list(args), st):
            for kvals, s2 in self.ev_list(list(kw.values()), s):
                o = fresh(cname, "new" + cname)
                others = [v.t for v in s2.vars.values() if isinstance(v, VObj)]
                s3 = s2.assume(*[o.t != t for t in others]) if others else s2.fork()
                fr = s3.vars.get("__fresh__", VTuple([]))
                s3.vars["__fresh__"] = VTuple(fr.items + [o])
                if init is None:
                    out.append((o, s3))
                    continue
                for kind, s4, payload in self.inline_fd(init, [o] + vals, dict(zip(kw.keys(), kvals)), s3, ctor=o):
                    if kind == "return":
                        self.check_class_invariant(o, s4)
                        out.append((o, s4))
                    elif kind == "raise":
                        self.pending.append((s4, payload))
        return out

    def ghost_calls(self, calls, st: St, extra=None):
        """ground instances of separately proved lemmas (like a lemma call in Dafny): the
        arguments are expressions over the current locals and parameters"""
        if not calls:
            return st
        from .lemmas import lemma_instance

        vars_ = {**self.entry_env.vars, **{k: v for k, v in st.vars.items() if not k.startswith("__")}, **(extra or {})}
        env = Env(vars_, st.heap, old=self.entry_env)
        facts = []
        for name, args in calls:
            try:
                vals = [Pure(self.ctx, env).ev(_parse_spec(a)) for a in args]
            except (Unsupported, KindError, AttributeError):
                continue  # a local of that name does not exist (or has another shape) on this path
            facts.append(lemma_instance(self.ctx, name, vals))
        return st.assume(*facts)

    def check_class_invariant(self, o: VObj, st: St):
        st = self.ghost_calls(self.c.calls, st)
        """a newly constructed object must satisfy its class invariant (it is assumed for
        every object read later)"""
        todo = [o.kind]
        seen = set()
        while todo:
            c = todo.pop()
            if c in seen:
                continue
            seen.add(c)
            for i, clause in enumerate(api.INVARIANTS.get(c, [])):
                g = Pure(self.ctx, Env({"self": o}, st.heap)).b(_parse_spec(clause))
                self.oblige(f"class-invariant:{c}#{i}", g, st=st, note=clause)
            info = api.CLASSES.get(c)
            if info:
                todo.extend(info.bases)

    def super_init(self, args, kw, st):
        ctor = st.vars.get("__ctor__")
        if ctor is None:
            raise Unsupported("super().__init__ outside a constructor")
        cname = st.vars["__ctor_cls__"].s
        info = api.CLASSES.get(cname)
        init = None
        todo = list(info.bases) if info else []
        while todo and init is None:
            c = todo.pop(0)
            ci = api.CLASSES.get(c)
            if ci is None:
                continue
            init = self.ctx.find_def(ci.file, f"{c}.__init__")
            icls = c
            todo.extend(ci.bases)
        if init is None:
            return [(VNone(), st)]
        out = []
        for vals, s in self.ev_list(list(args), st):
            for kvals, s2 in self.ev_list(list(kw.values()), s):
                for kind, s4, payload in self.inline_fd(init, [ctor] + vals, dict(zip(kw.keys(), kvals)), s2, ctor=ctor, ctor_cls=icls):
                    if kind == "return":
                        out.append((VNone(), s4))
                    elif kind == "raise":
                        self.pending.append((s4, payload))
        return out

    def inline_named(self, name, args, kw, st):
        fd = self.ctx.find_def(self.c.file, name)
        if fd is None:
            raise Unsupported(f"inline helper {name} not found")
        out = []
        for vals, s in self.ev_list(list(args), st):
            for kvals, s2 in self.ev_list(list(kw.values()), s):
                for kind, s4, payload in self.inline_fd(fd, vals, dict(zip(kw.keys(), kvals)), s2):
                    if kind == "return":
                        out.append((payload, s4))
                    elif kind == "raise":
                        self.pending.append((s4, payload))
        return out

    def inline_fd(self, fd, vals, kwvals, st: St, ctor=None, ctor_cls=None):
        a = fd.args
        pos = [x.arg for x in a.posonlyargs + a.args]
        defaults = dict(zip(pos[len(pos) - len(a.defaults):], a.defaults))
        frame = {}
        for n, v in zip(pos, vals):
            frame[n] = v
        frame.update(kwvals)
        for n in pos:
            if n not in frame:
                if n not in defaults:
                    raise Unsupported(f"inline call: argument {n} missing")
                frame[n] = self.ev(defaults[n], st)[0][0]
        # parameter kinds from annotations (hints for Optional parameters)
        for x in a.posonlyargs + a.args:
            k = _ann_kind(x.annotation)
            if k and x.arg in frame and k.startswith("opt["):
                try:
                    frame[x.arg] = coerce(frame[x.arg], k)
                except KindError:
                    pass
        s0 = st.fork()
        saved_vars = s0.vars
        saved_handlers = s0.handlers
        s0.vars = dict(frame)
        for keep in ("__fresh__",):
            if keep in saved_vars:
                s0.vars[keep] = saved_vars[keep]
        if ctor is not None:
            s0.vars["__ctor__"] = ctor
            s0.vars["__ctor_cls__"] = VStrConst(ctor_cls or ctor.kind)
        s0.handlers = ()
        saved_undefined = s0.undefined
        s0.undefined = frozenset()
        saved_line = self.line
        saved_pending = self.pending
        self.pending = []
        saved_kinds = self.local_kinds
        self.local_kinds = {}
        for node in ast.walk(fd):
            if isinstance(node, ast.AnnAssign) and isinstance(node.target, ast.Name):
                k = _ann_kind(node.annotation)
                if k:
                    self.local_kinds[node.target.id] = k
        saved_consts = self.consts
        res = []
        try:
            outs = self.block(fd.body, s0)
            outs += self.drain()
        finally:
            self.local_kinds = saved_kinds
            self.consts = saved_consts
            self.line = saved_line
            inner_pending, self.pending = self.pending, saved_pending
        for kind, s, payload in outs:
            s = s.fork()
            fr = s.vars.get("__fresh__")
            s.vars = dict(saved_vars)
            if fr is not None:
                s.vars["__fresh__"] = fr
            s.handlers = saved_handlers
            s.undefined = saved_undefined
            if kind == "normal":
                res.append(("return", s, VNone()))
            elif kind in ("return", "raise"):
                res.append((kind, s, payload))
            else:
                raise Unsupported("break/continue escaping an inlined function")
        return res


def seq_facts(f, qfree=False):
    """For an assumed equality A == B ++ C between sequences: element-wise consequences
    (theorems of the sequence theory) spelled out with usable triggers."""
    out = []
    if not (z3.is_eq(f) and z3.is_seq(f.arg(0))):
        return out
    a, b = f.arg(0), f.arg(1)
    if z3.is_app_of(a, z3.Z3_OP_SEQ_CONCAT):
        a, b = b, a
    if not z3.is_app_of(b, z3.Z3_OP_SEQ_CONCAT) or b.num_args() != 2:
        return out
    left, right = b.arg(0), b.arg(1)
    n0 = z3.Length(left)
    out.append(z3.Length(a) == n0 + z3.Length(right))
    out.append(z3.SubSeq(a, 0, n0) == left)
    if not qfree:
        j = z3.Int(f"j!sf{next_id()}")
        out.append(z3.ForAll([j], z3.Implies(z3.And(0 <= j, j < n0), a[j] == left[j])))
    if z3.is_app_of(right, z3.Z3_OP_SEQ_UNIT):
        out.append(a[n0] == right.arg(0))
    return out


def _fresh_expr(e) -> bool:
    """syntactically a newly allocated list (or None)"""
    if isinstance(e, ast.Constant) and e.value is None:
        return True
    if isinstance(e, (ast.List, ast.ListComp)):
        return True
    if isinstance(e, ast.Subscript) and isinstance(e.slice, ast.Slice):
        return True
    if isinstance(e, ast.BinOp) and isinstance(e.op, ast.Add):
        return _fresh_expr(e.left) or _fresh_expr(e.right)
    if isinstance(e, ast.Call):
        f = e.func
        if isinstance(f, ast.Name) and f.id in ("list", "sorted", "dict", "set"):
            return True
        if isinstance(f, ast.Attribute) and f.attr == "copy" and not e.args:
            return True
    if isinstance(e, ast.IfExp):
        return _fresh_expr(e.body) and _fresh_expr(e.orelse)
    return False


def fresh_locals(fd) -> set:
    """local names every assignment of which is a fresh allocation (so mutating them cannot
    touch an argument or shared object); parameters are never fresh"""
    params = {a.arg for a in fd.args.posonlyargs + fd.args.args + fd.args.kwonlyargs}
    good, bad = set(), set(params)
    for n in ast.walk(fd):
        targets = []
        if isinstance(n, ast.Assign):
            targets = [(t, n.value) for t in n.targets]
        elif isinstance(n, ast.AnnAssign) and n.value is not None:
            targets = [(n.target, n.value)]
        elif isinstance(n, (ast.For, ast.comprehension)):
            for t in ast.walk(n.target):
                if isinstance(t, ast.Name):
                    bad.add(t.id)
        elif isinstance(n, ast.NamedExpr):
            targets = [(n.target, n.value)]
        for t, v in targets:
            if isinstance(t, ast.Name):
                (good if _fresh_expr(v) else bad).add(t.id)
            elif isinstance(t, (ast.Tuple, ast.List)):
                if isinstance(v, (ast.Tuple, ast.List)) and len(v.elts) == len(t.elts) and all(isinstance(x, ast.Name) for x in t.elts):
                    for x, xv in zip(t.elts, v.elts):  # a, b = e1, e2: element-wise
                        (good if _fresh_expr(xv) else bad).add(x.id)
                    continue
                for x in ast.walk(t):
                    if isinstance(x, ast.Name):
                        bad.add(x.id)
    return good - bad


def _clamp(x, n):
    xs = z3.simplify(x)
    if z3.is_int_value(xs) and xs.as_long() == 0:
        return z3.IntVal(0)
    return z3.If(x < 0, z3.If(n + x < 0, 0, n + x), z3.If(x > n, n, x))


def _same_effects(a: St, b: St) -> bool:
    if a.trace is not b.trace and not (a.trace is not None and b.trace is not None and a.trace.eq(b.trace)):
        return False
    if a.heap.keys() != b.heap.keys():
        return False
    for k in a.heap:
        x, y = a.heap[k], b.heap[k]
        if isinstance(x, tuple):
            if not (x[0].eq(y[0]) and x[1].eq(y[1])):
                return False
        elif not x.eq(y):
            return False
    if a.vars.keys() != b.vars.keys():
        return False
    for k in a.vars:
        if a.vars[k] is not b.vars[k]:
            return False
    return b.pc[: len(a.pc)] == a.pc if len(b.pc) >= len(a.pc) else False


def copy_load(node):
    n = ast.parse(ast.unparse(node), mode="eval").body
    for x in ast.walk(n):
        if hasattr(x, "ctx"):
            x.ctx = ast.Load()
    ast.copy_location(n, node)
    for x in ast.walk(n):
        x.lineno = getattr(node, "lineno", 0)
        x.col_offset = 0
    return n


def _walk_in_order(node):
    """Pre-order, source order."""
    yield node
    for child in ast.iter_child_nodes(node):
        yield from _walk_in_order(child)


def _bi_len(ex, vals, st):
    v = vals[0]
    if isinstance(v, VOpt):
        ex.implicit_exc(st, "TypeError", v.isnone, "len-none")
        v = v.inner
    if isinstance(v, VSeq):
        if v.t is None:
            return VInt(0)
        if v.kind.startswith("list3["):
            return VInt(3 * z3.Length(v.t))
        return VInt(z3.Length(v.t))
    if isinstance(v, VStrConst):
        return VInt(len(v.s))
    raise Unsupported(f"len of {v.kind}")


def _bi_minmax(is_min):
    def f(ex, vals, st):
        if len(vals) != 2:
            raise Unsupported("min/max arity")
        a, b = coerce(vals[0], "int").t, coerce(vals[1], "int").t
        return VInt(z3.If(a <= b, a, b) if is_min else z3.If(a >= b, a, b))

    return f


def _bi_int(ex, vals, st):
    v = vals[0]
    if isinstance(v, (VInt, VBool)):
        return coerce(v, "int")
    raise Unsupported(f"int() of {v.kind}")


def _bi_bool(ex, vals, st):
    return VBool(truthy(vals[0]))


def _bi_abs(ex, vals, st):
    a = coerce(vals[0], "int").t
    return VInt(z3.If(a >= 0, a, -a))


def _bi_str(ex, vals, st):
    return fresh("str", "str")


BUILTINS = {
    "len": _bi_len,
    "min": _bi_minmax(True),
    "max": _bi_minmax(False),
    "int": _bi_int,
    "bool": _bi_bool,
    "abs": _bi_abs,
    "str": _bi_str,
}

# class-level attributes that the sidecars may declare: "Mark.none" -> lambda: VSeq(...)
CLASS_ATTRS: dict = {}
