"""Kinds (static shapes of values) and symbolic values for pyvc.

A kind is a string:
  int | bool | none | str | val | func
  list[K]            K in int, str, val, or a class name
  opt[K]             K any non-opt kind
  dict{a:K,b:K}      record with constant string keys
  tuple[K,K,...]
  ClassName          instance of a repo class (uninterpreted sort Obj)
"""
from __future__ import annotations

import itertools

import z3

Obj = z3.DeclareSort("Obj")
Val = z3.DeclareSort("Val")  # opaque JSON-like values, z3 equality == structural equality
INT = z3.IntSort()
BOOL = z3.BoolSort()
IntSeq = z3.SeqSort(INT)

_counter = itertools.count()


class KindError(Exception):
    pass


class Unsupported(Exception):
    """AST shape outside the supported subset (-> drift, never a violation)."""


def split_top(s: str, sep: str = ",") -> list[str]:
    out, depth, cur = [], 0, ""
    for ch in s:
        if ch in "[{(":
            depth += 1
        elif ch in "]})":
            depth -= 1
        if ch == sep and depth == 0:
            out.append(cur.strip())
            cur = ""
        else:
            cur += ch
    if cur.strip():
        out.append(cur.strip())
    return out


def is_class_kind(k: str) -> bool:
    return k[0].isupper() and "[" not in k and "{" not in k


def elem_kind(k: str) -> str:
    if k == "str":
        return "int"
    if k.startswith("list3["):
        return "triple[" + k[6:-1] + "]"
    assert k.startswith("list["), k
    return k[5:-1]


_TRIPLES: dict = {}


def triple_sort(k: str):
    """z3 datatype of the elements of a `list3[K0,K1,K2]`: a flat Python list used as a sequence of
    triples (ResolvedPos.path = [node, index, offset, node, index, offset, ...])"""
    inner = k[k.index("[") + 1:-1]
    if inner not in _TRIPLES:
        ks = split_top(inner)
        if len(ks) != 3:
            raise KindError(f"list3 needs three component kinds: {k}")
        dt = z3.Datatype("Triple_" + "_".join(ks))
        dt.declare("mk3", ("c0", sort_of(ks[0])), ("c1", sort_of(ks[1])), ("c2", sort_of(ks[2])))
        _TRIPLES[inner] = (dt.create(), ks)
    return _TRIPLES[inner]


def sort_of(k: str):
    if k == "int":
        return INT
    if k == "bool":
        return BOOL
    if k == "str":
        return IntSeq
    if k == "val":
        return Val
    if k.startswith("list3["):
        return z3.SeqSort(triple_sort(k)[0])
    if k.startswith("list["):
        return z3.SeqSort(sort_of(elem_kind(k)))
    if is_class_kind(k):
        return Obj
    raise KindError(f"kind {k} has no single sort")


class V:
    kind: str

    def __repr__(self):
        return f"<{self.kind}:{getattr(self, 't', '')}>"


class VInt(V):
    kind = "int"

    def __init__(self, t):
        self.t = z3.IntVal(t) if isinstance(t, int) else t


class VBool(V):
    kind = "bool"

    def __init__(self, t):
        self.t = z3.BoolVal(t) if isinstance(t, bool) else t


class VNone(V):
    kind = "none"


class VVal(V):
    kind = "val"

    def __init__(self, t):
        self.t = t


class VSeq(V):
    def __init__(self, kind, t, fresh=False):
        self.kind = kind  # "str" or "list[K]"
        self.t = t
        self.fresh = fresh  # allocated in this activation and not yet captured

    @property
    def ek(self):
        return elem_kind(self.kind)


class VObj(V):
    def __init__(self, cls, t):
        self.kind = cls
        self.t = t


class VOpt(V):
    def __init__(self, inner_kind, isnone, inner):
        self.kind = f"opt[{inner_kind}]"
        self.ik = inner_kind
        self.isnone = isnone  # z3 Bool
        self.inner = inner  # V of kind inner_kind


class VRec(V):
    def __init__(self, fields: dict):
        self.fields = fields
        self.kind = "dict{" + ",".join(f"{k}:{v.kind}" for k, v in fields.items()) + "}"


class VTuple(V):
    def __init__(self, items):
        self.items = list(items)
        self.kind = "tuple[" + ",".join(i.kind for i in self.items) + "]"


class VFunc(V):
    kind = "func"

    def __init__(self, name):
        self.name = name


class VStrConst(V):
    """A Python string literal used only as key / message (never inspected)."""

    kind = "strconst"

    def __init__(self, s):
        self.s = s


def fresh(kind: str, hint: str = "v") -> V:
    n = f"{hint}!{next(_counter)}"
    if kind == "int":
        return VInt(z3.Int(n))
    if kind == "bool":
        return VBool(z3.Bool(n))
    if kind == "none":
        return VNone()
    if kind == "val":
        return VVal(z3.Const(n, Val))
    if kind == "func":
        return VFunc(hint)
    if kind == "strconst":
        return VStrConst("<" + hint + ">")  # a string used only as a tag (never inspected)
    if kind == "str" or kind.startswith("list[") or kind.startswith("list3["):
        return VSeq(kind, z3.Const(n, sort_of(kind)))
    if kind.startswith("opt["):
        ik = kind[4:-1]
        return VOpt(ik, z3.Bool(n + "?"), fresh(ik, hint))
    if kind.startswith("dict{"):
        fs = {}
        for part in split_top(kind[5:-1]):
            k, v = part.split(":", 1)
            fs[k.strip()] = fresh(v.strip(), hint + "." + k.strip())
        return VRec(fs)
    if kind.startswith("tuple["):
        return VTuple(fresh(k, hint) for k in split_top(kind[6:-1]))
    if is_class_kind(kind):
        return VObj(kind, z3.Const(n, Obj))
    raise KindError(f"cannot make fresh value of kind {kind}")


def coerce(v: V, kind: str) -> V:
    """View v as a value of (declared) kind `kind` (used for Optional locals)."""
    if v.kind == kind:
        return v
    if kind.startswith("opt["):
        ik = kind[4:-1]
        if isinstance(v, VNone):
            return VOpt(ik, z3.BoolVal(True), fresh(ik, "none"))
        if isinstance(v, VOpt):
            return v
        return VOpt(ik, z3.BoolVal(False), coerce(v, ik))
    if isinstance(v, VSeq) and (kind == "str" or kind.startswith("list[") or kind.startswith("list3[")):
        if v.t is None:  # empty display of unknown element kind
            return VSeq(kind, z3.Empty(sort_of(kind)), fresh=True)
        return v
    if isinstance(v, VObj) and is_class_kind(kind):
        return v  # subclass relations are not modelled
    if isinstance(v, VBool) and kind == "int":
        return VInt(z3.If(v.t, 1, 0))
    if isinstance(v, VStrConst) and kind == "str":
        return str_const(v.s)
    if isinstance(v, VOpt) and not kind.startswith("opt["):
        raise KindError(f"cannot view optional {v.kind} as {kind}")
    raise KindError(f"cannot view {v.kind} as {kind}")


def truthy(v: V):
    if isinstance(v, VBool):
        return v.t
    if isinstance(v, VInt):
        return v.t != 0
    if isinstance(v, VNone):
        return z3.BoolVal(False)
    if isinstance(v, VSeq):
        return z3.Length(v.t) > 0
    if isinstance(v, VObj):
        return z3.BoolVal(True)  # A4, re-checked on the class definitions every run
    if isinstance(v, VOpt):
        return z3.And(z3.Not(v.isnone), truthy(v.inner))
    if isinstance(v, VRec) or isinstance(v, VTuple):
        return z3.BoolVal(True)
    if isinstance(v, VStrConst):
        return z3.BoolVal(bool(v.s))
    raise KindError(f"truthiness of {v.kind}")


def is_none(v: V):
    if isinstance(v, VNone):
        return z3.BoolVal(True)
    if isinstance(v, VOpt):
        return v.isnone
    return z3.BoolVal(False)


def eq(a: V, b: V):
    """Python == for the modelled kinds (identity on Obj, A5)."""
    if isinstance(a, VOpt) or isinstance(b, VOpt):
        an, bn = is_none(a), is_none(b)
        ai = a.inner if isinstance(a, VOpt) else a
        bi = b.inner if isinstance(b, VOpt) else b
        if isinstance(ai, VNone) or isinstance(bi, VNone):
            return z3.And(an, bn)
        return z3.Or(z3.And(an, bn), z3.And(z3.Not(an), z3.Not(bn), eq(ai, bi)))
    if isinstance(a, VNone) or isinstance(b, VNone):
        return z3.BoolVal(isinstance(a, VNone) and isinstance(b, VNone))
    if isinstance(a, VBool) and isinstance(b, VInt):
        a = coerce(a, "int")
    if isinstance(b, VBool) and isinstance(a, VInt):
        b = coerce(b, "int")
    if isinstance(a, VStrConst) and isinstance(b, VStrConst):
        return z3.BoolVal(a.s == b.s)
    if isinstance(a, VStrConst):
        a = str_const(a.s)
    if isinstance(b, VStrConst):
        b = str_const(b.s)
    if isinstance(a, VRec) and isinstance(b, VRec):
        if set(a.fields) != set(b.fields):
            return z3.BoolVal(False)
        return z3.And([eq(a.fields[k], b.fields[k]) for k in a.fields])
    if isinstance(a, VTuple) and isinstance(b, VTuple):
        if len(a.items) != len(b.items):
            return z3.BoolVal(False)
        return z3.And([eq(x, y) for x, y in zip(a.items, b.items)])
    if hasattr(a, "t") and hasattr(b, "t"):
        if a.t.sort() == b.t.sort():
            return a.t == b.t
        return z3.BoolVal(False)
    return z3.BoolVal(False)


def str_const(s: str) -> VSeq:
    if not s:
        return VSeq("str", z3.Empty(IntSeq))
    units = [z3.Unit(z3.IntVal(ord(c))) for c in s]
    return VSeq("str", z3.Concat(*units) if len(units) > 1 else units[0])


def mergeable(a: V, b: V) -> bool:
    if isinstance(a, (VInt, VBool, VVal)) and type(a) is type(b):
        return True
    if isinstance(a, VSeq) and isinstance(b, VSeq) and a.kind == b.kind:
        return True
    if isinstance(a, VObj) and isinstance(b, VObj):
        return True
    if isinstance(a, VNone) and isinstance(b, VNone):
        return True
    if isinstance(a, (VOpt, VNone)) and isinstance(b, (VOpt, VNone)):
        ia = a.ik if isinstance(a, VOpt) else None
        ib = b.ik if isinstance(b, VOpt) else None
        return ia is None or ib is None or ia == ib
    if isinstance(a, VOpt) and not isinstance(b, (VOpt, VNone)):
        return a.ik == b.kind and mergeable(a.inner, b)
    if isinstance(b, VOpt) and not isinstance(a, (VOpt, VNone)):
        return b.ik == a.kind and mergeable(a, b.inner)
    if isinstance(a, VNone) or isinstance(b, VNone):
        other = b if isinstance(a, VNone) else a
        return isinstance(other, (VInt, VBool, VObj, VSeq, VVal))
    return False


def ite(c, a: V, b: V) -> V:
    if isinstance(a, VInt) and isinstance(b, VInt):
        return VInt(z3.If(c, a.t, b.t))
    if isinstance(a, VBool) and isinstance(b, VBool):
        return VBool(z3.If(c, a.t, b.t))
    if isinstance(a, VVal) and isinstance(b, VVal):
        return VVal(z3.If(c, a.t, b.t))
    if isinstance(a, VSeq) and isinstance(b, VSeq):
        return VSeq(a.kind, z3.If(c, a.t, b.t), a.fresh and b.fresh)
    if isinstance(a, VObj) and isinstance(b, VObj):
        return VObj(a.kind, z3.If(c, a.t, b.t))
    if isinstance(a, VNone) and isinstance(b, VNone):
        return a
    # optional merges
    ik = None
    for x in (a, b):
        if isinstance(x, VOpt):
            ik = x.ik
        elif not isinstance(x, VNone):
            ik = ik or x.kind
    oa, ob = coerce(a, f"opt[{ik}]"), coerce(b, f"opt[{ik}]")
    return VOpt(ik, z3.If(c, oa.isnone, ob.isnone), ite(c, oa.inner, ob.inner))
