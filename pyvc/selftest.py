"""Engine self-test run by setup: tiny known-valid and known-invalid VCs through the whole
pipeline (z3 present, sequences, quantifier expansion, sidecar import)."""
import sys

import z3


def main():
    x = z3.Int("x")
    s = z3.Solver()
    s.add(x > 2, z3.Not(x > 1))
    if s.check() != z3.unsat:
        print("selftest: z3 failed a trivial refutation")
        return 1
    s = z3.Solver()
    q = z3.Const("q", z3.SeqSort(z3.IntSort()))
    s.add(z3.Length(q) == 2, q[0] == 7)
    if s.check() != z3.sat:
        print("selftest: z3 sequences unavailable")
        return 1
    from .solve import load_sidecars
    from . import api

    load_sidecars(["contracts.transform_map"])
    if "StepMap._map" not in api.CONTRACTS:
        print("selftest: sidecar registry empty")
        return 1
    print("pyvc selftest ok: z3", z3.get_version_string(), "contracts", len(api.CONTRACTS))
    return 0


if __name__ == "__main__":
    sys.exit(main())
