"""In-process experiments: python3-vt -m pyvc.debug <mod> <key> [substr] [--expand K] [--t ms]"""
import sys, time
import z3
from . import api
from .solve import load_sidecars, check, generate, extract_inputs, ground_axioms

def main():
    args = sys.argv[1:]
    mod, key = args[0], args[1]
    sub = args[2] if len(args) > 2 and not args[2].startswith("--") else ""
    expand = int(args[args.index("--expand")+1]) if "--expand" in args else 0
    t = int(args[args.index("--t")+1]) if "--t" in args else 10000
    kind = "lemma" if "--lemma" in args else "contract"
    ctx, obls, entry, notes, paths = generate([mod], kind, key, expand)
    print(len(obls), "obligations", notes)
    for i, o in enumerate(obls):
        if sub not in o.name: continue
        pc = tuple(o.pc) + tuple(ctx.scope_assumptions if expand else ())
        pc = tuple(ground_axioms(pc, o.goal)) if expand else pc
        r, dt, model, s = check(pc, None if o.kind=="cover" else o.goal, t)
        print(i, o.name, o.kind, r, round(dt,2), o.note[:80])
        if r == "sat" and "--model" in args:
            print("   inputs:", extract_inputs(ctx, model, entry))
            for p in pc:
                v = model.eval(p, model_completion=True)
                if not z3.is_true(v):
                    print("   pc not true:", str(p)[:300], "->", str(v)[:100])
        if "--dump" in args:
            open(f"/verif/out/dbg_{i}.smt2","w").write("(set-logic ALL)\n"+s.to_smt2())
main()
