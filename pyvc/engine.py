"""pyvc: verification-condition generator for a subset of Python, reading the real
source of /repo with `ast` on every run.  See /verif/DESIGN.md section 2.1.

Forward symbolic execution with path splitting; loops are cut by invariants; calls are
replaced by callee contracts (never by callee bodies, except `__init__` of declared
classes and helpers explicitly listed as `inline`).  Every obligation is a pair
(path condition, goal) discharged by an SMT solver in pyvc.solve.
"""
from __future__ import annotations

import ast
import copy
import dataclasses
import os

import z3

from . import api
from .kinds import (
    BOOL,
    INT,
    IntSeq,
    KindError,
    Obj,
    Unsupported,
    V,
    Val,
    VBool,
    VFunc,
    VInt,
    VNone,
    VObj,
    VOpt,
    VRec,
    VSeq,
    VStrConst,
    VTuple,
    VVal,
    coerce,
    elem_kind,
    eq,
    fresh,
    is_class_kind,
    is_none,
    ite,
    mergeable,
    sort_of,
    split_top,
    str_const,
    truthy,
)

REPO = os.environ.get("PYVC_REPO", "/repo")

EXC_PARENTS = {
    "IndexError": "LookupError",
    "KeyError": "LookupError",
    "LookupError": "Exception",
    "ValueError": "Exception",
    "ReplaceError": "ValueError",
    "TransformError": "ValueError",
    "UnicodeDecodeError": "ValueError",
    "AssertionError": "Exception",
    "AttributeError": "Exception",
    "TypeError": "Exception",
    "StopIteration": "Exception",
    "SyntaxError": "Exception",
    "ZeroDivisionError": "ArithmeticError",
    "ArithmeticError": "Exception",
    "Exception": "BaseException",
}


def exc_is(e: str, parent: str) -> bool:
    while e:
        if e == parent:
            return True
        e = EXC_PARENTS.get(e)
    return False


@dataclasses.dataclass
class Obl:
    name: str
    line: int
    pc: tuple
    goal: object
    kind: str = "assert"  # assert | cover
    note: str = ""


class St:
    """Symbolic state (copied on fork)."""

    __slots__ = ("vars", "pc", "heap", "trace", "handlers", "undefined")

    def __init__(self):
        self.vars: dict[str, V] = {}
        self.pc: tuple = ()
        self.heap: dict[str, object] = {}
        self.trace = None
        self.handlers: tuple = ()
        self.undefined: frozenset = frozenset()

    def fork(self) -> "St":
        s = St()
        s.vars = dict(self.vars)
        s.pc = self.pc
        s.heap = dict(self.heap)
        s.trace = self.trace
        s.handlers = self.handlers
        s.undefined = self.undefined
        return s

    def assume(self, *conds) -> "St":
        s = self.fork()
        s.pc = s.pc + tuple(c for c in conds if not z3.is_true(c))
        return s


class Env:
    """Environment for pure (specification) evaluation."""

    def __init__(self, vars, heap, old=None, bound=None):
        self.vars = vars
        self.heap = heap
        self.old = old
        self.bound = bound or {}


# --------------------------------------------------------------------------------------
# context: source loading, declarations
# --------------------------------------------------------------------------------------


class Ctx:
    _instances = 0

    def __init__(self, repo=None, expand_quant=0, max_depth=7):
        self.repo = repo or REPO
        self.expand_quant = expand_quant
        self.MAX_DEPTH = max_depth
        self.scope_assumptions: list = []
        self.modules: dict[str, ast.Module] = {}
        self.funcs: dict[str, object] = {}
        self.specdefs: dict[str, ast.FunctionDef] = {}
        self.specfuncs: dict[str, tuple] = {}
        self.axioms_z3: list = []
        self.axiom_meta: list = []  # parallel to axioms_z3: ("def", spec function) | ("axiom", name)
        self.consts_cache: dict[str, dict] = {}
        self.guards: list = []
        self._depth: dict = {}
        self._memo: dict = {}
        self._load_specs()
        self._declare_axioms()

    # ---- repo source -------------------------------------------------------------------
    def module(self, rel: str) -> ast.Module:
        if rel not in self.modules:
            path = rel if os.path.isabs(rel) else os.path.join(self.repo, rel)
            with open(path, encoding="utf-8") as f:
                self.modules[rel] = ast.parse(f.read(), filename=path)
        return self.modules[rel]

    def find_def(self, rel: str, qualname: str):
        mod = self.module(rel)
        parts = qualname.split(".")
        body = mod.body
        node = None
        for i, p in enumerate(parts):
            found = None
            for n in body:
                if isinstance(n, (ast.FunctionDef, ast.ClassDef)) and n.name == p:
                    if isinstance(n, ast.FunctionDef) and any(
                        (isinstance(d, ast.Name) and d.id == "overload") for d in n.decorator_list
                    ):
                        continue
                    found = n
            if found is None:
                return None
            node = found
            body = getattr(found, "body", [])
        return node if isinstance(node, ast.FunctionDef) else None

    def find_class(self, rel: str, name: str):
        for n in self.module(rel).body:
            if isinstance(n, ast.ClassDef) and n.name == name:
                return n
        return None

    def module_consts(self, rel: str) -> dict:
        """Top-level NAME = <int constant expression>, assigned exactly once."""
        if rel in self.consts_cache:
            return self.consts_cache[rel]
        counts: dict[str, int] = {}
        vals: dict[str, int] = {}
        for n in self.module(rel).body:
            if isinstance(n, ast.Assign) and len(n.targets) == 1 and isinstance(n.targets[0], ast.Name):
                name = n.targets[0].id
                counts[name] = counts.get(name, 0) + 1
                try:
                    v = _const_eval(n.value, vals)
                except Exception:
                    continue
                vals[name] = v
        for node in ast.walk(self.module(rel)):
            if isinstance(node, ast.Global):
                for nm in node.names:
                    counts[nm] = 99
        out = {k: v for k, v in vals.items() if counts.get(k) == 1}
        self.consts_cache[rel] = out
        return out

    def class_semantics_ok(self, cname: str) -> list[str]:
        """A4/A5: instances are truthy and == is identity unless the class says otherwise."""
        info = api.CLASSES.get(cname)
        problems = []
        if not info:
            return problems
        seen = set()
        todo = [cname]
        while todo:
            c = todo.pop()
            if c in seen or c not in api.CLASSES:
                continue
            seen.add(c)
            ci = api.CLASSES[c]
            cd = self.find_class(ci.file, c)
            if cd is None:
                problems.append(f"class {c} not found in {ci.file}")
                continue
            for n in cd.body:
                if isinstance(n, ast.FunctionDef) and n.name in ("__bool__", "__len__", "__eq__", "__getattr__", "__getattribute__", "__setattr__"):
                    problems.append(f"class {c} defines {n.name}")
            todo.extend(ci.bases)
        return problems

    # ---- declarations -------------------------------------------------------------------
    def field_fn(self, cname: str, field: str):
        info = self._class_with_field(cname, field)
        k = info.fields[field]
        key = f"{info.name}.{field}"
        if key in self.funcs:
            return self.funcs[key], k
        if k.startswith("opt["):
            ik = k[4:-1]
            fn = (z3.Function(key + "?", Obj, BOOL), z3.Function(key + "!", Obj, sort_of(ik)))
        else:
            fn = z3.Function(key, Obj, sort_of(k))
        self.funcs[key] = fn
        return fn, k

    def _class_with_field(self, cname, field):
        todo = [cname]
        while todo:
            c = todo.pop(0)
            info = api.CLASSES.get(c)
            if info is None:
                continue
            if field in info.fields:
                return info
            todo.extend(info.bases)
        # a value of a base kind narrowed by an isinstance test: the field of the (unique)
        # declared subclass that has it
        subs = [i for i in api.CLASSES.values() if field in i.fields and self._is_subclass(i.name, cname)]
        if len(subs) == 1:
            return subs[0]
        raise Unsupported(f"class {cname} has no declared field {field}")

    def _is_subclass(self, c, base):
        todo = [c]
        seen = set()
        while todo:
            x = todo.pop()
            if x == base:
                return True
            if x in seen or x not in api.CLASSES:
                continue
            seen.add(x)
            todo.extend(api.CLASSES[x].bases)
        return False

    def heap_key(self, cname, field):
        info = self._class_with_field(cname, field)
        return f"{info.name}.{field}", info.fields[field], field in info.mutable

    def fresh_heap(self, tag="h") -> dict:
        heap = {}
        for info in api.CLASSES.values():
            for f in info.mutable:
                k = info.fields[f]
                key = f"{info.name}.{f}"
                heap[key] = self.fresh_heap_entry(key, k, tag)
        return heap

    def fresh_heap_entry(self, key, k, tag="h"):
        n = f"{tag}!{key}!{next_id()}"
        if k.startswith("opt["):
            ik = k[4:-1]
            return (z3.Array(n + "?", Obj, BOOL), z3.Array(n + "!", Obj, sort_of(ik)))
        return z3.Array(n, Obj, sort_of(k))

    def abstract_fn(self, name):
        if name in self.funcs:
            return self.funcs[name]
        params, ret = api.ABSTRACT[name]
        fn = z3.Function(name, *[sort_of(p) for p in params], sort_of(ret))
        self.funcs[name] = fn
        return fn

    # ---- spec functions -----------------------------------------------------------------
    def _load_specs(self):
        """Spec functions.  Proof mode: uninterpreted symbols with defining axioms triggered on
        the application; a recursive function f gets a second symbol f_low used for the
        recursive calls inside its definition plus `f(x) == f_low(x)`, so every application that
        occurs is unfolded exactly once and no matching loop arises.  Small-scope mode
        (expand_quant > 0): calls are expanded in place to a fixed depth, quantifier-free."""
        for path in api.SPEC_FILES:
            with open(path, encoding="utf-8") as f:
                tree = ast.parse(f.read(), filename=path)
            for n in tree.body:
                if isinstance(n, ast.FunctionDef) and not n.name.startswith("_"):
                    if any(isinstance(d, ast.Name) and d.id == "abstract" for d in n.decorator_list):
                        continue  # uninterpreted in tier P (declared with api.abstract), executable natively
                    self.specdefs[n.name] = n
        for name, fd in self.specdefs.items():
            pk = [_ann_kind(a.annotation) for a in fd.args.args]
            rk = _ann_kind(fd.returns)
            if any(k is None for k in pk) or rk is None:
                continue  # native-only helper (not translated)
            pnames = [a.arg for a in fd.args.args]
            has_quant = any(isinstance(n, ast.Lambda) for n in ast.walk(fd))
            recursive = name in self._reach(name)
            if self.expand_quant:
                self.specfuncs[name] = ("macro", fd, pk, rk, pnames, recursive)
            else:
                sorts = [sort_of(k) for k in pk] + [sort_of(rk)]
                fn = z3.Function(name, *sorts)
                low = z3.Function(name + "_low", *sorts) if recursive else None
                self.specfuncs[name] = ("uf", (fn, low), pk, rk, pnames, recursive)
        self._defining = None
        for name, (tag, fns, pk, rk, pnames, recursive) in list(self.specfuncs.items()):
            if tag != "uf":
                continue
            fn, low = fns
            fd = self.specdefs[name]
            args = [fresh(k, p) for k, p in zip(pk, pnames)]
            env = Env({p: a for p, a in zip(pnames, args)}, {})
            self._defining = (self._reach(name) & self._reached_by(name)) | {name} if recursive else None
            body = self._spec_body(fd.body, env, rk)
            self._defining = None
            app = fn(*[a.t for a in args])
            consts = [a.t for a in args]
            self.axioms_z3.append(z3.ForAll(consts, app == body.t, patterns=[app]))
            self.axiom_meta.append(("def", name))
            if recursive:
                self.axioms_z3.append(z3.ForAll(consts, app == low(*consts), patterns=[app]))
                self.axiom_meta.append(("def", name))

    def _calls(self, name):
        fd = self.specdefs.get(name)
        if fd is None:
            return set()
        return {n.func.id for n in ast.walk(fd) if isinstance(n, ast.Call) and isinstance(n.func, ast.Name) and n.func.id in self.specdefs}

    def _reach(self, name):
        """spec functions reachable from `name` through calls (not including itself unless on a cycle)"""
        cache = self.__dict__.setdefault("_reach_cache", {})
        if name not in cache:
            seen, todo = set(), list(self._calls(name))
            while todo:
                x = todo.pop()
                if x in seen:
                    continue
                seen.add(x)
                todo.extend(self._calls(x))
            cache[name] = seen
        return cache[name]

    def _reached_by(self, name):
        return {x for x in self.specdefs if name in self._reach(x)}

    def call_spec(self, name, args):
        tag, fn, pk, rk, pnames, recursive = self.specfuncs[name]
        if len(args) != len(pk):
            raise Unsupported(f"arity of spec function {name}")
        args = [coerce(a.inner if (isinstance(a, VOpt) and not k.startswith("opt[")) else a, k) for a, k in zip(args, pk)]
        if tag == "uf":
            f, low = fn
            if self._defining and name in self._defining and low is not None:
                return wrap(rk, low(*[a.t for a in args]))
            return wrap(rk, f(*[a.t for a in args]))
        # macro expansion (quantified bodies; everything in small-scope mode)
        depth = self._depth.get(name, 0)
        if recursive and sum(self._depth.get(m, 0) for m in (self._reach(name) & self._reached_by(name)) | {name}) >= self.MAX_DEPTH:
            # beyond the unrolling depth: exclude this case from the small scope
            self.scope_assumptions.append(z3.Not(z3.And(*self.guards)) if self.guards else z3.BoolVal(False))
            return fresh(rk, name + "_cut")
        key = (name, depth, tuple(a.t.get_id() for a in args), tuple(g.get_id() for g in self.guards) if recursive else ())
        if key in self._memo:
            return self._memo[key]
        self._depth[name] = depth + 1
        try:
            env = Env(dict(zip(pnames, args)), {})
            res = self._spec_body(fn.body, env, rk)
        finally:
            self._depth[name] = depth
        self._memo[key] = res
        return res

    def _spec_body(self, stmts, env, rk) -> V:
        stmts = [s for s in stmts if not (isinstance(s, ast.Expr) and isinstance(s.value, ast.Constant))]
        if not stmts:
            raise Unsupported("spec function falls off the end")
        s = stmts[0]
        if isinstance(s, ast.Return):
            return coerce(Pure(self, env).ev(s.value), rk)
        if isinstance(s, ast.Assign) and len(s.targets) == 1 and isinstance(s.targets[0], ast.Name):
            env2 = Env(dict(env.vars), env.heap)
            env2.vars[s.targets[0].id] = Pure(self, env).ev(s.value)
            return self._spec_body(stmts[1:], env2, rk)
        if isinstance(s, ast.If):
            c = truthy(Pure(self, env).ev(s.test))
            self.guards.append(c)
            try:
                a = self._spec_body(s.body + stmts[1:], env, rk)
            finally:
                self.guards.pop()
            self.guards.append(z3.Not(c))
            try:
                b = self._spec_body((s.orelse or []) + stmts[1:], env, rk)
            finally:
                self.guards.pop()
            return ite(c, a, b)
        raise Unsupported(f"spec statement {type(s).__name__}")

    def _declare_axioms(self):
        for ax in api.AXIOMS:
            if ax.manual:
                continue
            vs = {n: fresh(k, n) for n, k in ax.vars.items()}
            env = Env(vs, {})
            body = truthy(Pure(self, env).ev(_parse_spec(ax.expr)))
            consts = []
            for v in vs.values():
                consts.extend(_consts_of(v))
            if consts:
                pats = []
                if ax.triggers and not self.expand_quant:
                    for t in ax.triggers:
                        pats.append(_term_of(Pure(self, env).ev(_parse_spec(t))))
                    body = z3.ForAll(consts, body, patterns=[z3.MultiPattern(*pats) if len(pats) > 1 else pats[0]])
                else:
                    # small-scope mode expands spec calls in place, so they cannot serve as triggers
                    body = z3.ForAll(consts, body)
            self.axioms_z3.append(body)
            self.axiom_meta.append(("axiom", ax.name))


_id = [0]


def next_id():
    _id[0] += 1
    return _id[0]


def _consts_of(v: V):
    if isinstance(v, VOpt):
        return [v.isnone] + _consts_of(v.inner)
    if isinstance(v, VRec):
        return [c for f in v.fields.values() for c in _consts_of(f)]
    if isinstance(v, VTuple):
        return [c for f in v.items for c in _consts_of(f)]
    if hasattr(v, "t"):
        return [v.t]
    return []


def _term_of(v: V):
    return v.t


def _const_eval(node, env):
    if isinstance(node, ast.Constant) and isinstance(node.value, (int, bool)):
        return int(node.value)
    if isinstance(node, ast.Name):
        return env[node.id]
    if isinstance(node, ast.BinOp):
        a, b = _const_eval(node.left, env), _const_eval(node.right, env)
        ops = {ast.Add: lambda: a + b, ast.Sub: lambda: a - b, ast.Mult: lambda: a * b, ast.Pow: lambda: a**b,
               ast.FloorDiv: lambda: a // b, ast.BitOr: lambda: a | b, ast.BitAnd: lambda: a & b, ast.LShift: lambda: a << b}
        return ops[type(node.op)]()
    if isinstance(node, ast.UnaryOp) and isinstance(node.op, ast.USub):
        return -_const_eval(node.operand, env)
    raise ValueError("not constant")


def _ann_kind(ann):
    """Kind from a source annotation (hint only)."""
    if ann is None:
        return None
    if isinstance(ann, ast.Constant) and isinstance(ann.value, str):
        s = ann.value
        if s in ("int", "bool", "str", "val", "none") or s.startswith(("list[", "opt[", "dict{", "tuple[")) or s in api.CLASSES:
            return s
        try:
            return _ann_kind(ast.parse(s, mode="eval").body)
        except SyntaxError:
            return None
    if isinstance(ann, ast.Constant) and ann.value is None:
        return "none"
    if isinstance(ann, ast.Name):
        if ann.id in ("int", "bool", "str"):
            return ann.id
        if ann.id == "float":
            return "int"
        if ann.id in api.CLASSES:
            return ann.id
        if ann.id in ("JSON", "Attrs", "JSONDict", "Any"):
            return "val"
        return None
    if isinstance(ann, ast.Subscript):
        base = ann.value.id if isinstance(ann.value, ast.Name) else None
        if base == "list":
            ek = _ann_kind(ann.slice)
            return f"list[{ek}]" if ek else None
        if base == "Optional":
            ik = _ann_kind(ann.slice)
            return f"opt[{ik}]" if ik else None
        return None
    if isinstance(ann, ast.BinOp) and isinstance(ann.op, ast.BitOr):
        l, r = _ann_kind(ann.left), _ann_kind(ann.right)
        if r == "none" and l:
            return l if l.startswith("opt[") else f"opt[{l}]"
        if l == "none" and r:
            return r if r.startswith("opt[") else f"opt[{r}]"
        return None
    return None


from .api import _parse_spec, _split_implies  # noqa: E402,F401


# --------------------------------------------------------------------------------------
# pure (specification) evaluation
# --------------------------------------------------------------------------------------


class Pure:
    def __init__(self, ctx: Ctx, env: Env, result: V | None = None):
        self.ctx = ctx
        self.env = env
        self.result = result

    def ev(self, e) -> V:
        m = getattr(self, "ev_" + type(e).__name__, None)
        if m is None:
            raise Unsupported(f"spec expression {type(e).__name__}")
        return m(e)

    def b(self, e):
        return truthy(self.ev(e))

    def ev_Constant(self, e):
        v = e.value
        if isinstance(v, bool):
            return VBool(v)
        if isinstance(v, int):
            return VInt(v)
        if v is None:
            return VNone()
        if isinstance(v, str):
            return VStrConst(v)
        raise Unsupported(f"constant {v!r}")

    def ev_Name(self, e):
        if e.id in self.env.bound:
            return self.env.bound[e.id]
        if e.id == "result":
            if self.result is None:
                if "result" in self.env.vars:
                    return self.env.vars["result"]  # a program variable that happens to be called result
                raise Unsupported("result not available here")
            return self.result
        if e.id in self.env.vars:
            return self.env.vars[e.id]
        if e.id == "True":
            return VBool(True)
        raise Unsupported(f"unknown name {e.id} in specification")

    def ev_Attribute(self, e):
        if isinstance(e.value, ast.Name) and e.value.id in api.CLASSES and e.value.id not in self.env.vars:
            from .symexec import CLASS_ATTRS

            key = f"{e.value.id}.{e.attr}"
            if key in CLASS_ATTRS:
                return CLASS_ATTRS[key]()
            raise Unsupported(f"class attribute {key}")
        base = self.ev(e.value)
        return read_field(self.ctx, self.env.heap, base, e.attr)

    def ev_Subscript(self, e):
        base = self.ev(e.value)
        if isinstance(e.slice, ast.Slice):
            if not isinstance(base, VSeq):
                raise Unsupported("slice of non-sequence")
            def bound(x, default):
                if x is None:
                    return default
                v = self.ev(x)
                if isinstance(v, VOpt):
                    return z3.If(v.isnone, default, v.inner.t)
                if isinstance(v, VNone):
                    return default
                return v.t

            lo = bound(e.slice.lower, z3.IntVal(0))
            hi = bound(e.slice.upper, z3.Length(base.t))
            return VSeq(base.kind, z3.SubSeq(base.t, lo, hi - lo))
        if isinstance(base, VOpt):
            base = base.inner  # the clause guards with `is not None`
        if isinstance(base, VRec):
            k = self.ev(e.slice)
            return base.fields[k.s]
        if isinstance(base, VTuple):
            return base.items[e.slice.value]
        idx = self.ev(e.slice)
        if isinstance(base, VSeq):
            return wrap_elem(base.ek, base.t[idx.t])
        raise Unsupported("subscript in specification")

    def ev_UnaryOp(self, e):
        if isinstance(e.op, ast.Not):
            return VBool(z3.Not(self.b(e.operand)))
        if isinstance(e.op, ast.USub):
            return VInt(-self.ev(e.operand).t)
        raise Unsupported("unary op")

    def ev_BoolOp(self, e):
        vals = []
        g = self.ctx.guards
        pushed = 0
        try:
            for v in e.values:
                val = self.ev(v)
                vals.append(val)
                c = truthy(val)
                g.append(c if isinstance(e.op, ast.And) else z3.Not(c))
                pushed += 1
        finally:
            for _ in range(pushed):
                g.pop()
        if all(isinstance(v, VBool) for v in vals):
            ts = [v.t for v in vals]
            return VBool(z3.And(ts) if isinstance(e.op, ast.And) else z3.Or(ts))
        # value-returning and/or
        acc = vals[-1]
        for v in reversed(vals[:-1]):
            c = truthy(v)
            if not mergeable(v, acc):
                raise Unsupported("and/or over different kinds in specification")
            acc = ite(c, acc, v) if isinstance(e.op, ast.And) else ite(c, v, acc)
        return acc

    def ev_BinOp(self, e):
        a, b = self.ev(e.left), self.ev(e.right)
        if isinstance(a, VOpt):
            a = a.inner
        if isinstance(b, VOpt):
            b = b.inner
        return binop(e.op, a, b, None)

    def ev_Compare(self, e):
        left = self.ev(e.left)
        conds = []
        for op, r in zip(e.ops, e.comparators):
            right = self.ev(r)
            a, b = left, right
            if isinstance(op, (ast.Lt, ast.LtE, ast.Gt, ast.GtE)):
                a = a.inner if isinstance(a, VOpt) else a
                b = b.inner if isinstance(b, VOpt) else b
            conds.append(compare(op, a, b))
            left = right
        return VBool(z3.And(conds) if len(conds) > 1 else conds[0])

    def ev_IfExp(self, e):
        c = self.b(e.test)
        g = self.ctx.guards
        g.append(c)
        try:
            a = self.ev(e.body)
        finally:
            g.pop()
        g.append(z3.Not(c))
        try:
            b = self.ev(e.orelse)
        finally:
            g.pop()
        if not mergeable(a, b):
            raise Unsupported(f"conditional over kinds {a.kind}/{b.kind} in specification")
        return ite(c, a, b)

    def ev_List(self, e):
        items = [self.ev(x) for x in e.elts]
        items = [i.inner if isinstance(i, VOpt) else i for i in items]
        if not items:
            raise Unsupported("empty list literal needs a kind: use empty_int()/empty_obj()")
        k = items[0].kind
        units = [z3.Unit(i.t) for i in items]
        return VSeq(f"list[{k}]", z3.Concat(*units) if len(units) > 1 else units[0])

    def ev_Tuple(self, e):
        return VTuple(self.ev(x) for x in e.elts)

    def ev_Call(self, e):
        if isinstance(e.func, ast.Name):
            name = e.func.id
            if name == "old":
                if self.env.old is None:
                    raise Unsupported("old() not available here")
                return Pure(self.ctx, self.env.old, self.result).ev(e.args[0])
            if name == "implies":
                a = self.b(e.args[0])
                self.ctx.guards.append(a)
                try:
                    b = self.b(e.args[1])
                finally:
                    self.ctx.guards.pop()
                return VBool(z3.Implies(a, b))
            if name in ("all_", "any_"):
                lo, hi = self.ev(e.args[0]).t, self.ev(e.args[1]).t
                lam = e.args[2]
                if not isinstance(lam, ast.Lambda):
                    raise Unsupported("quantifier needs a lambda")
                jn = lam.args.args[0].arg
                K = self.ctx.expand_quant
                g = self.ctx.guards
                if K:
                    # small-scope mode (counterexample search): finite expansion, range <= K assumed
                    self.ctx.scope_assumptions.append(z3.Implies(z3.And(*g), hi - lo <= K) if g else hi - lo <= K)
                    insts = []
                    for d in range(K):
                        env2 = Env(self.env.vars, self.env.heap, self.env.old, {**self.env.bound, jn: VInt(lo + d)})
                        g.append(lo + d < hi)
                        try:
                            inst = Pure(self.ctx, env2, self.result).b(lam.body)
                        finally:
                            g.pop()
                        insts.append(z3.Implies(lo + d < hi, inst) if name == "all_" else z3.And(lo + d < hi, inst))
                    return VBool(z3.And(insts) if name == "all_" else z3.Or(insts))
                # deterministic bound-variable names (by nesting depth): two evaluations of the same
                # quantified clause over the same terms yield the identical z3 term, so a ground lemma
                # instance whose hypothesis is quantified is discharged propositionally
                qd = len([k for k in self.env.bound if k.startswith("!qd")])
                j = z3.Int(f"{jn}!q{qd}")
                env2 = Env(self.env.vars, self.env.heap, self.env.old, {**self.env.bound, jn: VInt(j), f"!qd{qd}": VInt(0)})
                body = Pure(self.ctx, env2, self.result).b(lam.body)
                rng = z3.And(lo <= j, j < hi)
                if name == "all_":
                    return VBool(z3.ForAll([j], z3.Implies(rng, body)))
                return VBool(z3.Exists([j], z3.And(rng, body)))
            if name == "len":
                a = self.ev(e.args[0])
                if isinstance(a, VOpt):
                    a = a.inner
                if isinstance(a, VSeq):
                    return VInt(z3.Length(a.t))
                raise Unsupported("len of non-sequence")
            if name in ("min", "max"):
                av, bv = self.ev(e.args[0]), self.ev(e.args[1])
                a, b = (av.inner if isinstance(av, VOpt) else av).t, (bv.inner if isinstance(bv, VOpt) else bv).t
                return VInt(z3.If(a <= b, a, b) if name == "min" else z3.If(a >= b, a, b))
            if name == "abs":
                a = self.ev(e.args[0]).t
                return VInt(z3.If(a >= 0, a, -a))
            if name == "int" or name == "bool":
                a = self.ev(e.args[0])
                return a if name == "int" else VBool(truthy(a))
            if name in ("p3a", "p3b", "p3c", "len3"):
                # components of a list3 (flat list read as triples): p3a(path, d) == path[3*d] etc.
                from .kinds import triple_sort

                a = self.ev(e.args[0])
                a = a.inner if isinstance(a, VOpt) else a
                if not (isinstance(a, VSeq) and a.kind.startswith("list3[")):
                    raise Unsupported(f"{name} of {a.kind}")
                if name == "len3":
                    return VInt(z3.Length(a.t))
                dt, ks = triple_sort(a.kind)
                c = "abc".index(name[2])
                dv = self.ev(e.args[1])
                d = (dv.inner if isinstance(dv, VOpt) else dv).t
                return wrap(ks[c], dt.accessor(0, c)(a.t[d]))
            if name == "prefix_of":
                a, b = self.ev(e.args[0]), self.ev(e.args[1])
                a = a.inner if isinstance(a, VOpt) else a
                b = b.inner if isinstance(b, VOpt) else b
                if isinstance(a, VStrConst):
                    a = str_const(a.s)
                # an uninterpreted predicate (constrained by the sidecar's axioms): z3's sequence solver
                # does not return within its time-out on queries that mix PrefixOf with quantifiers
                fn = self.ctx.funcs.setdefault("prefix_of", z3.Function("prefix_of", IntSeq, IntSeq, BOOL))
                return VBool(fn(a.t, b.t))
            if name == "empty_int":
                return VSeq("list[int]", z3.Empty(IntSeq))
            if name == "empty_of":
                k = e.args[0].value
                return VSeq(k, z3.Empty(sort_of(k)))
            if name == "is_none":
                return VBool(is_none(self.ev(e.args[0])))
            if name == "bor":
                a, b = self.ev(e.args[0]).t, self.ev(e.args[1]).t
                return VInt(bit_or(a, b))
            if name == "band":
                a, b = self.ev(e.args[0]).t, self.ev(e.args[1]).t
                return VInt(bit_and(a, b))
            if name.startswith("spec_") and name[5:] in ("isolating", "defining", "definingAsContext", "definingForContent", "code"):
                fn = self.ctx.funcs.setdefault(name, z3.Function(name, Obj, BOOL))
                a = self.ev(e.args[0])
                return VBool(fn((a.inner if isinstance(a, VOpt) else a).t))
            if name == "narrow":
                a = self.ev(e.args[0])
                if isinstance(a, VOpt):
                    a = a.inner
                return VObj(e.args[1].value, a.t)
            if name.startswith("isinstance_"):
                fn = self.ctx.funcs.setdefault(name, z3.Function(name, Obj, BOOL))
                a = self.ev(e.args[0])
                if isinstance(a, VOpt):
                    return VBool(z3.And(z3.Not(a.isnone), fn(a.inner.t)))
                if isinstance(a, VObj) and a.kind == name[len("isinstance_"):]:
                    return VBool(True)
                return VBool(fn(a.t))
            if name in self.ctx.specfuncs:
                return self.ctx.call_spec(name, [self.ev(a) for a in e.args])
            if name == "or_empty":
                a = self.ev(e.args[0])
                if isinstance(a, VOpt):
                    return VSeq(a.ik, z3.If(a.isnone, z3.Empty(sort_of(a.ik)), a.inner.t))
                if isinstance(a, VNone):
                    return VSeq("list[int]", z3.Empty(IntSeq))
                return a
            if name in api.ABSTRACT:
                fn = self.ctx.abstract_fn(name)
                pk, rk = api.ABSTRACT[name]
                vals = [self.ev(a) for a in e.args]
                args = [coerce(v.inner if (isinstance(v, VOpt) and not k.startswith("opt[")) else v, k) for v, k in zip(vals, pk)]
                return wrap(rk, fn(*[a.t for a in args]))
        raise Unsupported(f"call {ast.dump(e.func)[:60]} in specification")


def wrap(kind: str, t) -> V:
    if kind == "int":
        return VInt(t)
    if kind == "bool":
        return VBool(t)
    if kind == "val":
        return VVal(t)
    if kind == "str" or kind.startswith("list[") or kind.startswith("list3["):
        return VSeq(kind, t)
    if is_class_kind(kind):
        return VObj(kind, t)
    raise KindError(f"wrap {kind}")


def wrap_elem(ek: str, t) -> V:
    return wrap(ek, t)


def read_field(ctx: Ctx, heap: dict, base: V, attr: str) -> V:
    if isinstance(base, VOpt):
        # reading through an Optional: caller must have established not-None
        base = base.inner
    if isinstance(base, VRec):
        if attr in base.fields:
            return base.fields[attr]
        raise Unsupported(f"record has no field {attr}")
    if not isinstance(base, VObj):
        raise Unsupported(f"attribute {attr} of {base.kind}")
    key, k, mutable = ctx.heap_key(base.kind, attr)
    if mutable:
        if key not in heap:
            raise Unsupported(f"mutable field {key} read without heap")
        h = heap[key]
        if k.startswith("opt["):
            ik = k[4:-1]
            return VOpt(ik, _select(h[0], base.t), wrap(ik, _select(h[1], base.t)))
        return wrap(k, _select(h, base.t))
    fn, k = ctx.field_fn(base.kind, attr)
    if k.startswith("opt["):
        ik = k[4:-1]
        return VOpt(ik, fn[0](base.t), wrap(ik, fn[1](base.t)))
    return wrap(k, fn(base.t))


def _select(h, idx):
    """Select with the trivial read-over-write case resolved syntactically."""
    if z3.is_store(h) and h.arg(1).eq(idx):
        return h.arg(2)
    return z3.Select(h, idx)


BV = 8


def bit_or(a, b):
    return z3.BV2Int(z3.Int2BV(a, BV) | z3.Int2BV(b, BV))


def bit_and(a, b):
    return z3.BV2Int(z3.Int2BV(a, BV) & z3.Int2BV(b, BV))


def binop(op, a: V, b: V, ex) -> V:
    """ex: executor (for obligations) or None in pure mode."""
    if isinstance(a, VBool):
        a = coerce(a, "int")
    if isinstance(b, VBool):
        b = coerce(b, "int")
    if isinstance(a, VStrConst):
        a = str_const(a.s)
    if isinstance(b, VStrConst):
        b = str_const(b.s)
    if isinstance(a, VSeq) and isinstance(b, VSeq) and isinstance(op, ast.Add):
        if a.kind != b.kind:
            raise Unsupported(f"concatenation of {a.kind} and {b.kind}")
        return VSeq(a.kind, z3.Concat(a.t, b.t), fresh=True)
    if isinstance(a, VInt) and isinstance(b, VInt):
        if isinstance(op, ast.Add):
            return VInt(a.t + b.t)
        if isinstance(op, ast.Sub):
            return VInt(a.t - b.t)
        if isinstance(op, ast.Mult):
            return VInt(a.t * b.t)
        if isinstance(op, (ast.FloorDiv, ast.Mod, ast.Div)):
            bs = z3.simplify(b.t)
            if not z3.is_int_value(bs) or bs.as_long() <= 0:
                raise Unsupported("division/modulo by a non-constant or non-positive divisor (A1)")
            if isinstance(op, ast.Mod):
                return VInt(a.t % bs)
            if isinstance(op, ast.Div) and ex is not None:
                ex.oblige("exact-division", (a.t % bs) == 0, note="A2: true division modelled as exact")
            return VInt(a.t / bs)  # z3 integer division is floor for positive divisors
        if isinstance(op, ast.BitAnd):
            bs = z3.simplify(b.t)
            if z3.is_int_value(bs) and (bs.as_long() + 1) & bs.as_long() == 0:
                return VInt(a.t % (bs.as_long() + 1))  # A3
            if ex is not None:
                ex.oblige("bitand-range", z3.And(a.t >= 0, a.t < 2**BV, b.t >= 0, b.t < 2**BV))
            return VInt(bit_and(a.t, b.t))
        if isinstance(op, ast.BitOr):
            if ex is not None:
                ex.oblige("bitor-range", z3.And(a.t >= 0, a.t < 2**BV, b.t >= 0, b.t < 2**BV))
            return VInt(bit_or(a.t, b.t))
        if isinstance(op, ast.Pow):
            asim, bsim = z3.simplify(a.t), z3.simplify(b.t)
            if z3.is_int_value(asim) and z3.is_int_value(bsim) and bsim.as_long() >= 0:
                return VInt(asim.as_long() ** bsim.as_long())
    raise Unsupported(f"binary {type(op).__name__} on {a.kind},{b.kind}")


def compare(op, a: V, b: V):
    if isinstance(op, ast.Eq):
        return eq(a, b)
    if isinstance(op, ast.NotEq):
        return z3.Not(eq(a, b))
    if isinstance(op, (ast.Is, ast.IsNot)):
        if isinstance(b, VNone):
            r = is_none(a)
        elif isinstance(a, VNone):
            r = is_none(b)
        elif isinstance(a, VObj) and isinstance(b, VObj):
            r = a.t == b.t
        elif isinstance(a, VBool) and isinstance(b, VBool):
            r = a.t == b.t
        elif isinstance(a, VOpt) and isinstance(b, VBool):
            # `x is False` on an optional-bool
            r = z3.And(z3.Not(a.isnone), a.inner.t == b.t) if isinstance(a.inner, VBool) else z3.BoolVal(False)
        elif isinstance(a, VVal) and isinstance(b, VBool):
            raise Unsupported("`is` on opaque value")
        else:
            raise Unsupported(f"`is` on {a.kind},{b.kind} (identity of containers is not modelled)")
        return r if isinstance(op, ast.Is) else z3.Not(r)
    if isinstance(a, VBool):
        a = coerce(a, "int")
    if isinstance(b, VBool):
        b = coerce(b, "int")
    if isinstance(a, VInt) and isinstance(b, VInt):
        if isinstance(op, ast.Lt):
            return a.t < b.t
        if isinstance(op, ast.LtE):
            return a.t <= b.t
        if isinstance(op, ast.Gt):
            return a.t > b.t
        if isinstance(op, ast.GtE):
            return a.t >= b.t
    if isinstance(op, (ast.In, ast.NotIn)) and isinstance(b, VOpt) and isinstance(b.inner, VSeq):
        b = b.inner  # evaluating `x in None` raises; callers guard with `is None` first
    if isinstance(op, (ast.In, ast.NotIn)) and isinstance(b, VSeq):
        r = z3.Contains(b.t, z3.Unit(a.t))
        return r if isinstance(op, ast.In) else z3.Not(r)
    raise Unsupported(f"comparison {type(op).__name__} on {a.kind},{b.kind}")
