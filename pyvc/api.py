"""Registry used by the sidecar contract files in /verif/contracts/."""
from __future__ import annotations

import ast
import dataclasses
from typing import Any

CLASSES: dict[str, "ClassInfo"] = {}
CONTRACTS: dict[str, "Contract"] = {}
ABSTRACT: dict[str, tuple[list[str], str]] = {}
AXIOMS: list["Axiom"] = []
LEMMAS: dict[str, "Lemma"] = {}
INVARIANTS: dict[str, list[str]] = {}  # class -> clauses over `self` (assumed for values read, proved for new objects)
SPEC_FILES: list[str] = []


@dataclasses.dataclass
class ClassInfo:
    name: str
    file: str
    fields: dict[str, str]
    mutable: set[str]
    bases: list[str]


@dataclasses.dataclass
class Axiom:
    name: str
    vars: dict[str, str]
    expr: str
    reason: str
    triggers: list[str] | None = None
    manual: bool = False  # not asserted as a quantified fact; only ground instances named in calls= are used


@dataclasses.dataclass
class Contract:
    file: str
    qualname: str
    params: dict[str, str]
    requires: list[str]
    cases: list[dict[str, Any]]
    raises: dict[str, str]
    modifies: list[str]
    loops: dict[int, dict[str, Any]]
    decreases: str | None
    inline: list[str]
    locals: dict[str, str]
    trusted: str | None
    props: list[str]
    calls_func: dict[str, list[str]]
    reify: Any = None
    havoc_extra: list[str] = dataclasses.field(default_factory=list)
    ghost: bool = False
    is_property: bool = False
    uses: list[str] = dataclasses.field(default_factory=list)
    # dynamic-dispatch assumption: holds whenever THIS body runs (e.g. Node.node_size is not
    # reached for text nodes because TextNode overrides it); assumed for the body, not
    # required of callers, listed in the evidence
    body_requires: list[str] = dataclasses.field(default_factory=list)
    # ghost lemma calls: (lemma name, [argument expressions over locals/params]) instantiated at
    # every return and at every construction of an object with a class invariant
    calls: list = dataclasses.field(default_factory=list)
    # a method overridden in subclasses: callers on a receiver of this (base) kind may not rely
    # on the ensures of this body; they get `virtual_ensures` (default: nothing)
    virtual: bool = False
    virtual_ensures: list[str] = dataclasses.field(default_factory=list)
    may_raise: dict = dataclasses.field(default_factory=dict)  # exception -> condition under which it MAY be raised
    # definitional clauses `result == f(args)` / `result.x == g(args)` that *name* the result of a pure,
    # deterministic function by an uninterpreted function of its arguments: known to callers, not an
    # obligation of the body (natively f calls the function itself, so the clause is a tautology there).
    # Only for int / bool valued names (no object identity is asserted).
    defines: list = dataclasses.field(default_factory=list)
    # list parameters the function mutates in place (passed by reference): in ensures the parameter name
    # denotes the list after the call, old(name) the list before; at a call site the argument must be a
    # local list the caller itself may mutate
    mutates: list = dataclasses.field(default_factory=list)

    @property
    def key(self):
        return self.qualname


@dataclasses.dataclass
class Lemma:
    name: str
    vars: dict[str, str]
    requires: list[str]
    ensures: list[str]
    props: list[str]
    induct: str | None = None  # name of an int var: IH available for var-1 (var > 0)
    hints: list[str] = dataclasses.field(default_factory=list)
    triggers: list[str] = dataclasses.field(default_factory=list)
    uses: list[str] = dataclasses.field(default_factory=list)
    calls: list = dataclasses.field(default_factory=list)  # ground instances of other lemmas: (name, [arg exprs])
    terms: list = dataclasses.field(default_factory=list)  # expressions whose terms are introduced (t == fresh): triggers unfolding, adds no fact
    step: int = -1  # induction hypothesis at induct + step ...
    decreases: str | None = None  # ... admissible because this measure is >= 0 and smaller there
    generalize: list = dataclasses.field(default_factory=list)  # variables the induction hypothesis is universally quantified over


def cls(name, file, fields, mutable=(), bases=()):
    CLASSES[name] = ClassInfo(name, file, dict(fields), set(mutable), list(bases))


def invariant(cname, *clauses):
    INVARIANTS.setdefault(cname, []).extend(clauses)


def abstract(name, params, ret):
    ABSTRACT[name] = (list(params), ret)


def axiom(name, vars, expr, reason, triggers=None, manual=False):
    AXIOMS.append(Axiom(name, dict(vars), expr, reason, triggers, manual))


def spec_file(path):
    if path not in SPEC_FILES:
        SPEC_FILES.append(path)


def contract(
    file,
    qualname,
    params,
    returns="none",
    requires=(),
    ensures=(),
    cases=None,
    raises=None,
    modifies=(),
    loops=None,
    decreases=None,
    inline=(),
    locals=None,
    trusted=None,
    props=(),
    calls_func=None,
    reify=None,
    havoc_extra=(),
    is_property=False,
    uses=(),
    body_requires=(),
    calls=(),
    virtual=False,
    virtual_ensures=(),
    may_raise=None,
    defines=(),
    mutates=(),
    alias=None,
):
    if cases is None:
        cases = [dict(when="True", returns=returns, ensures=list(ensures))]
    c = Contract(
        file=file,
        qualname=qualname,
        params=dict(params),
        requires=list(requires),
        cases=cases,
        raises=dict(raises or {}),
        modifies=list(modifies),
        loops=dict(loops or {}),
        decreases=decreases,
        inline=list(inline),
        locals=dict(locals or {}),
        trusted=trusted,
        props=list(props),
        calls_func=dict(calls_func or {}),
        reify=reify,
        havoc_extra=list(havoc_extra),
        is_property=is_property,
        uses=list(uses),
        body_requires=list(body_requires),
        calls=list(calls),
        virtual=virtual,
        virtual_ensures=list(virtual_ensures),
        may_raise=dict(may_raise or {}),
        defines=list(defines),
        mutates=list(mutates),
    )
    # alias: a second contract of the same function for another shape of its input (each one verifies the body)
    CONTRACTS[alias or qualname] = c
    return c


def lemma(name, vars, requires=(), ensures=(), props=(), induct=None, hints=(), triggers=(), uses=(), step=-1, decreases=None, calls=(), terms=(), generalize=()):
    if hints:
        raise ValueError("lemma hints are assumed facts and are not accepted; use calls= (proved lemmas) or terms=")
    LEMMAS[name] = Lemma(name, dict(vars), list(requires), list(ensures), list(props), induct, [], list(triggers), list(uses), list(calls), list(terms), step, decreases, list(generalize))


def reset():
    CLASSES.clear()
    CONTRACTS.clear()
    ABSTRACT.clear()
    AXIOMS.clear()
    LEMMAS.clear()
    SPEC_FILES.clear()
    INVARIANTS.clear()


def _parse_spec(s: str) -> ast.expr:
    """Contract clause -> ast.  `A ==> B` is right-associative implication."""
    parts = _split_implies(s)
    if len(parts) > 1:
        s = parts[-1]
        for p in reversed(parts[:-1]):
            s = f"implies(({p}), ({s}))"
    return ast.parse(s.strip(), mode="eval").body


def _split_implies(s):
    out, depth, cur, i = [], 0, "", 0
    while i < len(s):
        ch = s[i]
        if ch in "([{":
            depth += 1
        elif ch in ")]}":
            depth -= 1
        if depth == 0 and s.startswith("==>", i):
            out.append(cur)
            cur = ""
            i += 3
            continue
        cur += ch
        i += 1
    out.append(cur)
    return out


