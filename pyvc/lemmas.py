"""Lemmas over specification functions / contracts (no function body involved)."""
from __future__ import annotations

import z3

from . import api
from .engine import Ctx, Env, Obl, Pure, _parse_spec
from .kinds import fresh


def lemma_fact(ctx: Ctx, name: str):
    """The (separately proved) lemma as a quantified fact with its declared triggers."""
    lem = api.LEMMAS[name]
    vs = {n: fresh(k, n) for n, k in lem.vars.items()}
    env = Env(vs, {})
    hyp = [Pure(ctx, env).b(_parse_spec(r)) for r in lem.requires]
    con = [Pure(ctx, env).b(_parse_spec(e)) for e in lem.ensures]
    body = z3.Implies(z3.And(*hyp), z3.And(*con)) if hyp else z3.And(*con)
    consts = [v.t for v in vs.values()]
    pats = [Pure(ctx, env).ev(_parse_spec(t)).t for t in lem.triggers]
    if pats:
        return z3.ForAll(consts, body, patterns=[z3.MultiPattern(*pats) if len(pats) > 1 else pats[0]])
    return z3.ForAll(consts, body)


def lemma_instance(ctx: Ctx, name: str, vals):
    """ground instance requires ==> ensures of a (separately proved) lemma"""
    from .kinds import coerce

    if name not in api.LEMMAS:
        # a (trusted) axiom instantiated at explicit arguments
        ax = next((a for a in api.AXIOMS if a.name == name), None)
        if ax is None:
            raise ValueError(f"no lemma or axiom named {name}")
        if len(vals) != len(ax.vars):
            raise ValueError(f"axiom {name} takes {len(ax.vars)} arguments")
        from .kinds import VOpt as _VOpt, truthy as _truthy

        vs = {n: coerce(v.inner if (isinstance(v, _VOpt) and not k.startswith("opt[")) else v, k) for (n, k), v in zip(ax.vars.items(), vals)}
        return _truthy(Pure(ctx, Env(vs, {})).ev(_parse_spec(ax.expr)))
    lem = api.LEMMAS[name]
    if len(vals) != len(lem.vars):
        raise ValueError(f"lemma {name} takes {len(lem.vars)} arguments")
    from .kinds import VOpt

    # an Optional argument stands for its value (the instance is a valid instance of the proved
    # lemma for whatever value that is, so this is sound also where the Optional is None)
    vs = {n: coerce(v.inner if (isinstance(v, VOpt) and not k.startswith("opt[")) else v, k) for (n, k), v in zip(lem.vars.items(), vals)}
    env = Env(vs, {})
    hyp = [Pure(ctx, env).b(_parse_spec(r)) for r in lem.requires]
    con = [Pure(ctx, env).b(_parse_spec(e)) for e in lem.ensures]
    return z3.Implies(z3.And(*hyp), z3.And(*con)) if hyp else z3.And(*con)


def lemma_obligations(ctx: Ctx, lem: api.Lemma):
    vs = {n: fresh(k, n) for n, k in lem.vars.items()}
    env = Env(vs, {})
    pc = list(ctx.axioms_z3)
    for r in lem.requires:
        pc.append(Pure(ctx, env).b(_parse_spec(r)))
    if lem.induct:
        # induction hypothesis: the lemma at induct+step, admissible because the (integer)
        # measure is non-negative there and strictly smaller than here
        k = vs[lem.induct]
        from .kinds import VInt

        vs2 = dict(vs)
        vs2[lem.induct] = VInt(k.t + lem.step)
        gen = []
        for g in lem.generalize:
            vs2[g] = fresh(lem.vars[g], g + "_any")  # the hypothesis holds for every value of these
            gen.append(vs2[g].t)
        env2 = Env(vs2, {})
        dec = lem.decreases or lem.induct
        d0 = Pure(ctx, env).ev(_parse_spec(dec)).t
        d1 = Pure(ctx, env2).ev(_parse_spec(dec)).t
        hyp = [Pure(ctx, env2).b(_parse_spec(r)) for r in lem.requires]
        con = [Pure(ctx, env2).b(_parse_spec(e)) for e in lem.ensures]
        ih = z3.Implies(z3.And(d1 >= 0, d1 < d0, *hyp), z3.And(*con))
        if gen:
            # alternative patterns for the generalised hypothesis: the lemma's trigger terms at the shifted index
            pats = []
            for t in lem.triggers:
                try:
                    pats.append(Pure(ctx, env2).ev(_parse_spec(t)).t)
                    # the unfolded definition mentions the recursive call through its `_low` twin: match that too
                    saved = ctx._defining
                    ctx._defining = set(ctx.specfuncs)
                    try:
                        low = Pure(ctx, env2).ev(_parse_spec(t)).t
                    finally:
                        ctx._defining = saved
                    if not low.eq(pats[-1]):
                        pats.append(low)
                except Exception:  # noqa: BLE001
                    pass
            pc.append(z3.ForAll(gen, ih, patterns=pats) if pats else z3.ForAll(gen, ih))
        else:
            pc.append(ih)
    if not ctx.expand_quant:
        for u in lem.uses:
            pc.append(lemma_fact(ctx, u))
    for cname, cargs in lem.calls:
        vals = [Pure(ctx, env).ev(_parse_spec(a)) for a in cargs]
        pc.append(lemma_instance(ctx, cname, vals))
    for t in lem.terms:
        v = Pure(ctx, env).ev(_parse_spec(t))
        from .kinds import fresh as _fresh

        pc.append(v.t == _fresh(v.kind, "term").t)  # introduces the term; constrains nothing
    obls = [Obl(f"lemma:{lem.name}/cover:requires-satisfiable", 0, tuple(pc), z3.BoolVal(True), "cover")]
    for i, e in enumerate(lem.ensures):
        obls.append(Obl(f"lemma:{lem.name}/ensures#{i}", 0, tuple(pc), Pure(ctx, env).b(_parse_spec(e)), "assert", e))
    return obls, env
