"""Discharge obligations: z3 API first, then cvc5 / z3 4.8 CLI on the dumped SMT-LIB for
`unknown`.  Workers regenerate the VCs from source themselves (z3 terms do not pickle)."""
from __future__ import annotations

import importlib
import json
import multiprocessing as mp
import os
import subprocess
import sys
import tempfile
import time
import traceback

import z3

from . import api
from .engine import Ctx, Obl
from .kinds import Unsupported, KindError, V, VBool, VInt, VObj, VOpt, VRec, VSeq, VTuple, VVal

TIMEOUT_MS = int(os.environ.get("PYVC_TIMEOUT_MS", "60000"))
OUT = os.environ.get("PYVC_OUT") or os.path.join(os.path.dirname(os.path.dirname(os.path.abspath(__file__))), "out")


def load_sidecars(mods):
    api.reset()
    for m in mods:
        if m in sys.modules:
            importlib.reload(sys.modules[m])
        else:
            importlib.import_module(m)


def check(pc, goal, timeout_ms=None, want_model=True, tracked=False, mbqi=False):
    s = z3.Solver()
    s.set("timeout", timeout_ms or TIMEOUT_MS)
    s.set("random_seed", 0)
    s.set("mbqi", mbqi)
    for i, p in enumerate(pc):
        if tracked and not z3.is_quantifier(p):
            # portfolio variant: tracked assertions go through a different (less aggressive)
            # pre-processing path, which decides some unfolding-heavy goals the default misses
            s.assert_and_track(p, f"h!{i}")
        else:
            s.add(p)
    if goal is not None:
        s.add(z3.Not(goal))
    t0 = time.time()
    r = s.check()
    dt = time.time() - t0
    model = None
    if r == z3.sat and want_model:
        model = s.model()
    return str(r), dt, model, s


def _symbols(t, cache):
    """names of the uninterpreted function symbols occurring in a term"""
    key = t.get_id()
    if key in cache:
        return cache[key]
    out = set()
    seen = set()
    todo = [t]
    while todo:
        x = todo.pop()
        if x.get_id() in seen:
            continue
        seen.add(x.get_id())
        if z3.is_quantifier(x):
            todo.append(x.body())
            continue
        if z3.is_app(x):
            d = x.decl()
            if d.kind() == z3.Z3_OP_UNINTERPRETED and x.num_args() > 0:
                out.add(d.name())
            todo.extend(x.children())
    cache[key] = out
    return out


def lean_pc(ctx, pc, goal):
    """Drop the axioms that cannot matter for this query (sound: fewer hypotheses): a defining axiom
    of spec function f is kept when f (or f_low) is reachable from the query's symbols through kept
    definitions; a sidecar axiom is kept when every symbol it mentions is reachable.  Loading a
    second sidecar then does not slow down (or flip) the obligations of the first."""
    n_ax = len(ctx.axioms_z3)
    if len(ctx.axiom_meta) != n_ax or tuple(p.get_id() for p in pc[:n_ax]) != tuple(a.get_id() for a in ctx.axioms_z3):
        return None
    cache = ctx.__dict__.setdefault("_sym_cache", {})
    syms = set()
    for p in pc[n_ax:]:
        syms |= _symbols(p, cache)
    syms |= _symbols(goal, cache)
    keep = [False] * n_ax
    changed = True
    while changed:
        changed = False
        for i, (kind, name) in enumerate(ctx.axiom_meta):
            if keep[i]:
                continue
            asy = _symbols(ctx.axioms_z3[i], cache)
            if kind == "def":
                ok = name in syms or (name + "_low") in syms
            else:
                ok = asy <= syms
            if ok:
                keep[i] = True
                changed = True
                syms |= asy
    if all(keep):
        return None
    return tuple(a for a, k in zip(pc[:n_ax], keep) if k) + tuple(pc[n_ax:])


def check_lazy(pc, goal, timeout_ms=20000, step_ms=4000, max_iter=60):
    """Model search for a quantifier-free set of hypotheses by lazy hypothesis addition: solve a
    small subset (starting from the negated goal), evaluate every other hypothesis under the total
    extension of the model, add the violated ones, repeat.  `sat` comes with a model under which
    every hypothesis evaluates to true and the goal to false (so it is a model of the whole set);
    `unsat` of a subset is `unsat` of the set.  Small queries keep z3's sequence solver responsive."""
    t0 = time.time()
    rest = [p for p in pc if not z3.is_true(p)]
    active = []
    neg = z3.Not(goal) if goal is not None else None
    model = None
    for it in range(max_iter):
        left = timeout_ms / 1000.0 - (time.time() - t0)
        if left <= 0:
            return "unknown", time.time() - t0, None, None
        s = z3.Solver()
        s.set("timeout", int(min(step_ms, left * 1000)))
        s.set("random_seed", 0)
        for p in active:
            s.add(p)
        if neg is not None:
            s.add(neg)
        r = s.check()
        if r == z3.unsat:
            return "unsat", time.time() - t0, None, s
        if r != z3.sat:
            return "unknown", time.time() - t0, None, s
        model = s.model()
        bad = []
        for p in rest:
            try:
                v = model.eval(p, model_completion=True)
            except Exception:  # noqa: BLE001
                v = None
            if v is None or not z3.is_true(v):
                bad.append(p)
                if len(bad) >= 6:
                    break
        if not bad:
            return "sat", time.time() - t0, model, s
        ids = {b.get_id() for b in bad}
        active.extend(bad)
        rest = [p for p in rest if p.get_id() not in ids]
    return "unknown", time.time() - t0, None, None


def ground_axioms(pc, goal, cap=40):
    """small-scope mode: replace the (few) quantified type axioms by their instances over the
    ground terms of the right sort that occur in the query; quantifier-free afterwards"""
    qs = [p for p in pc if z3.is_quantifier(p)]
    rest = [p for p in pc if not z3.is_quantifier(p)]
    if not qs:
        return list(pc)
    by_sort: dict = {}
    seen = set()
    todo = list(rest) + ([goal] if goal is not None else [])
    while todo:
        t = todo.pop()
        if t.get_id() in seen:
            continue
        seen.add(t.get_id())
        if z3.is_quantifier(t):
            continue
        if z3.is_app(t):
            so = t.sort()
            if so.kind() not in (z3.Z3_BOOL_SORT,) and not z3.is_int_value(t):
                by_sort.setdefault(so.name() if so.kind() == z3.Z3_UNINTERPRETED_SORT else str(so), []).append(t)
            todo.extend(t.children())
    out = list(rest)
    for q in qs:
        if not q.is_forall():
            continue
        n = q.num_vars()
        pools = []
        for i in range(n):
            so = q.var_sort(i)
            key = so.name() if so.kind() == z3.Z3_UNINTERPRETED_SORT else str(so)
            pools.append(by_sort.get(key, [])[: cap if n == 1 else 8])
        import itertools

        for combo in itertools.product(*pools):
            # de Bruijn: variable 0 is the LAST bound variable
            out.append(z3.substitute_vars(q.body(), *reversed(combo)))
    return out


def model_ok(model, pc, goal, axioms=()):
    """every quantifier-free hypothesis true and the goal false under the model; the
    quantified type axioms (which small-scope mode only instantiates on occurring terms) must
    hold for EVERY element of the model's finite universes"""
    import itertools

    try:
        for p in pc:
            if z3.is_quantifier(p):
                continue
            if not z3.is_true(model.eval(p, model_completion=True)):
                return False
        if not z3.is_false(model.eval(goal, model_completion=True)):
            return False
        for q in axioms:
            if not (z3.is_quantifier(q) and q.is_forall()):
                continue
            pools = []
            ok = True
            for i in range(q.num_vars()):
                so = q.var_sort(i)
                if so.kind() != z3.Z3_UNINTERPRETED_SORT:
                    ok = False
                    break
                pools.append(model.get_universe(so) or [])
            if not ok:
                continue  # e.g. axioms over strings: checked on the occurring terms only
            n = 0
            for combo in itertools.product(*pools):
                n += 1
                if n > 4000:
                    break
                if not z3.is_true(model.eval(z3.substitute_vars(q.body(), *reversed(combo)), model_completion=True)):
                    return False
        return True
    except Exception:  # noqa: BLE001
        return False


def fallback(solver: z3.Solver, name: str, budget_s=120, order=("cvc5", "z3old")):
    """Try external solvers on the SMT-LIB dump. -> (result, backend, seconds)"""
    os.makedirs(os.path.join(OUT, "smt"), exist_ok=True)
    path = os.path.join(OUT, "smt", name.replace("/", "_").replace(":", "_")[:150] + f".{os.getpid()}.smt2")
    with open(path, "w") as f:
        f.write("(set-logic ALL)\n" + solver.to_smt2())
    cmds = {
        "cvc5": ("cvc5-1.0.3", ["/usr/bin/cvc5", "--strings-exp", f"--tlimit={budget_s * 1000}", path]),
        "z3old": ("z3-4.8.12", ["/usr/bin/z3", f"-T:{budget_s}", path]),
    }
    for backend, cmd in [cmds[o] for o in order]:
        t0 = time.time()
        try:
            p = subprocess.run(cmd, capture_output=True, text=True, timeout=budget_s + 10)
            out = p.stdout.strip().splitlines()
            res = out[0].strip() if out else "unknown"
        except Exception:
            res = "unknown"
        if res in ("unsat", "sat"):
            try:
                os.remove(path)
            except OSError:
                pass
            return res, backend, time.time() - t0
    return "unknown", "none", 0.0


def model_value(ctx: Ctx, model, v: V, heap, depth=0):
    try:
        if isinstance(v, (VInt,)):
            return model.eval(v.t, model_completion=True).as_long()
        if isinstance(v, VBool):
            return z3.is_true(model.eval(v.t, model_completion=True))
        if isinstance(v, VOpt):
            if z3.is_true(model.eval(v.isnone, model_completion=True)):
                return None
            return model_value(ctx, model, v.inner, heap, depth)
        if isinstance(v, VSeq):
            n = model.eval(z3.Length(v.t), model_completion=True).as_long()
            n = min(n, 12)
            from .engine import wrap_elem
            return [model_value(ctx, model, wrap_elem(v.ek, v.t[i]), heap, depth + 1) for i in range(n)]
        if isinstance(v, VObj):
            ident = str(model.eval(v.t, model_completion=True))
            out = {"__class__": v.kind, "__id__": ident}
            if depth >= 3:
                return out
            from .engine import read_field
            todo = [v.kind]
            seen = set()
            while todo:
                c = todo.pop(0)
                info = api.CLASSES.get(c)
                if not info or c in seen:
                    continue
                seen.add(c)
                for f in info.fields:
                    try:
                        out[f] = model_value(ctx, model, read_field(ctx, heap, v, f), heap, depth + 1)
                    except Exception:
                        out[f] = "?"
                todo.extend(info.bases)
            return out
        if isinstance(v, VRec):
            return {k: model_value(ctx, model, f, heap, depth) for k, f in v.fields.items()}
        if isinstance(v, VTuple):
            return [model_value(ctx, model, f, heap, depth) for f in v.items]
        if isinstance(v, VVal):
            return {"__val__": str(model.eval(v.t, model_completion=True))}
    except Exception as e:  # model extraction is best effort
        return f"?({type(e).__name__})"
    return None


def gen_contract(ctx: Ctx, key: str):
    from .symexec import Exec

    c = api.CONTRACTS[key]
    ex = Exec(ctx, c)
    obls = ex.run()
    return ex, obls


def gen_lemma(ctx: Ctx, name: str):
    from .lemmas import lemma_obligations

    return lemma_obligations(ctx, api.LEMMAS[name])


_CTX = {}
SCOPE_K = int(os.environ.get("PYVC_SCOPE", "4"))
COVER_K = 2  # reachability (cover) queries only need some model: a smaller scope keeps them cheap


def _ctx_for(mods, expand=0):
    key = (tuple(mods), expand)
    if (tuple(mods), 0) not in _CTX and (tuple(mods), SCOPE_K) not in _CTX:
        load_sidecars(mods)
    if key not in _CTX:
        _CTX[key] = Ctx(expand_quant=expand, max_depth=(expand + 2) if expand else 7)
    return _CTX[key]


def has_quantifier(terms):
    seen = set()
    todo = list(terms)
    while todo:
        t = todo.pop()
        if t.get_id() in seen:
            continue
        seen.add(t.get_id())
        if z3.is_quantifier(t):
            return True
        todo.extend(t.children())
    return False


def generate(mods, kind, key, expand=0):
    ctx = _ctx_for(mods, expand)
    ctx.scope_assumptions = []
    if kind == "contract":
        ex, obls = gen_contract(ctx, key)
        return ctx, obls, ex.entry_env, ex.notes, ex.ret_paths
    obls, entry = gen_lemma(ctx, key)
    return ctx, obls, entry, [], 0


def extract_inputs(ctx, model, entry):
    inputs = {}
    if model is not None and entry is not None:
        for pn, pv in entry.vars.items():
            if pn == "trace":
                continue
            inputs[pn] = model_value(ctx, model, pv, entry.heap)
    return inputs


def worker(task, emit=None, skip=(), refute=()):
    """all obligations of one shard of one function / lemma.  `emit` (optional) is told about
    every obligation before it starts and after it finishes, so that a supervisor can kill a
    solver call that ignores its time-out and resume behind it (`skip`)."""
    mods, kind, key, k, n, timeout_ms = task
    t_start = time.time()
    try:
        ctx, obls, entry, notes, paths = generate(mods, kind, key, 0)
    except (Unsupported, KindError) as e:
        return dict(key=key, kind=kind, shard=k, drift=str(e), results=[], gen_s=time.time() - t_start)
    except Exception as e:
        return dict(key=key, kind=kind, shard=k, crash=traceback.format_exc(), results=[], gen_s=time.time() - t_start)
    gen_s = time.time() - t_start
    results = []
    cexs = {}  # lazily generated small-scope versions, by scope
    cov = None
    n_ax = len(ctx.axioms_z3)
    for i, o in enumerate(obls):
        if i % n != k or i in skip:
            continue
        if emit:
            emit(("start", i, o.name, o.kind, o.line, o.note))
            results = []
        if o.kind == "cover":
            # reachability is decided in small-scope mode (a model is what we want)
            try:
                if cov is None:
                    cov = generate(mods, kind, key, COVER_K)
                    cov = (cov[0], cov[1], list(cov[0].scope_assumptions))
                cctx, cobls = cov[0], cov[1]
                co = cobls[i]
                assert co.name == o.name
                cqf = ground_axioms(tuple(co.pc) + tuple(cov[2]), None)
                if has_quantifier(cqf):
                    r, dt, model, s = check(tuple(cqf), None, min(timeout_ms, 2000), want_model=False)
                else:
                    r, dt, model, s = check_lazy(tuple(cqf), None, min(timeout_ms, 6000), step_ms=2000)
            except Exception as e:
                r, dt = "unknown", 0.0
            results.append(dict(name=o.name, line=o.line, kind="cover", result=r, s=round(dt, 3), backend="z3-5.1.0"))
            if emit:
                emit(("result", i, results[-1]))
            continue
        # staged attempts (cumulative, so load on the machine changes the time, not the verdict):
        # full hypotheses briefly; then without the quantified requires/invariants (dropping
        # hypotheses is sound for a proof, and pure unfolding obligations go through at once);
        # then the full set with the whole budget
        light = tuple(p for j, p in enumerate(o.pc) if j < n_ax or not has_quantifier([p]))
        goal_q = has_quantifier([o.goal])
        r, dt, model, s = "unknown", 0.0, None, None
        stage = None
        stages = [("full", 4000), ("light", 10000), ("light-tracked", 10000)] if goal_q else [("light", 10000), ("light-tracked", 10000), ("full", 4000)]
        lean = lean_pc(ctx, tuple(o.pc), o.goal)
        if lean is not None:
            stages = [("lean", 6000)] + stages
        if i in refute:
            # a proof attempt of this obligation was killed (solver ignored its time-out, typical for
            # satisfiable sequence queries): go straight to the quantifier-free small-scope search
            stages = []
            s = None
        for which, budget in stages:
            if which == "lean":
                r2, dt2, _, _ = check(lean, o.goal, min(budget, timeout_ms))
                dt += dt2
                if r2 == "unsat":
                    r = "unsat"
                    stage = which
                    break
                continue
            if which.startswith("light"):
                if len(light) == len(o.pc) and which == "light":
                    continue
                r2, dt2, _, _ = check(light, o.goal, min(budget, timeout_ms), tracked=which.endswith("tracked"))
                dt += dt2
                if r2 == "unsat":
                    r = "unsat"
                    stage = which
                    break
            else:
                r, dt2, model, s = check(o.pc, o.goal, min(budget, timeout_ms))
                dt += dt2
                if r != "unknown":
                    stage = which
                    break
        if s is None:
            r0, dt2, model0, s = check(o.pc, o.goal, 1) if r == "unsat" else (r, 0, None, None)
        long_pending = r == "unknown" and i not in refute
        backend = "z3-5.1.0"
        quant = None
        rec = dict(name=o.name, line=o.line, kind="assert", note=o.note)
        if r == "sat" and has_quantifier(list(o.pc) + [o.goal]):
            r, model = "unknown", None  # a model under quantifiers is not trusted
        if r == "unknown" and s is not None:
            # another solver generation on the same SMT-LIB text, briefly: z3 4.8's sequence solver
            # often closes in a second what z3 5.1 does not close in minutes (and vice versa)
            s_ext = s
            if lean is not None:
                s_ext = z3.Solver()
                for p_ in lean:
                    s_ext.add(p_)
                s_ext.add(z3.Not(o.goal))
            r3, backend3, dt3 = fallback(s_ext, o.name, budget_s=10, order=("z3old", "cvc5"))
            dt += dt3
            if r3 != "unsat" and s_ext is not s:
                r3, backend3, dt3 = fallback(s, o.name, budget_s=10, order=("z3old", "cvc5"))
                dt += dt3
            if r3 == "unsat":
                r, backend = r3, backend3
                stage = "external-quick"
        if r == "unknown":
            # (a) look for a small-scope counterexample (quantifiers expanded, recursion unrolled,
            # so a model is real); a ladder of scopes: the small one answers in milliseconds
            for K in (1, COVER_K, SCOPE_K):
                kb = {1: 10000, COVER_K: 15000}.get(K, 30000)
                try:
                    if K not in cexs:
                        g = generate(mods, kind, key, K)
                        cexs[K] = g + (list(g[0].scope_assumptions),)
                    cctx, cobls, centry = cexs[K][0], cexs[K][1], cexs[K][2]
                    co = cobls[i]
                    assert co.name == o.name, (co.name, o.name)
                    # the only quantifiers left in small-scope mode are the sidecar's type axioms:
                    # model-based instantiation decides them; the model is validated below and replayed
                    qf = ground_axioms(tuple(co.pc) + tuple(cexs[K][5]), co.goal)
                    if has_quantifier(qf):
                        r2, dt2, model2, _ = check(tuple(qf), co.goal, min(timeout_ms, kb))
                    else:
                        r2, dt2, model2, _ = check_lazy(tuple(qf), co.goal, min(timeout_ms, kb))
                    if r2 == "sat" and not model_ok(model2, qf, co.goal, [p for p in co.pc if z3.is_quantifier(p)]):
                        r2 = "unknown"
                        rec["small_scope_note"] = "model rejected: violates a quantified type axiom or does not falsify the goal"
                    dt += dt2
                    if r2 == "sat":
                        r, model = "sat", model2
                        rec["model"] = extract_inputs(cctx, model2, centry)
                        rec["have_model"] = True
                        rec["scope"] = K
                        backend = f"z3-5.1.0 (small-scope expansion, K={K})"
                        break
                    rec["small_scope"] = r2
                    if r2 == "unsat" and K == SCOPE_K:
                        # the unrolled, quantifier-free version has no counterexample; if the
                        # scope restrictions themselves follow from the hypotheses (e.g. lists of
                        # concrete length), the unrolling is complete and this is a proof
                        asm = cexs[K][5]
                        r3, dt3, _, _ = check(tuple(co.pc), z3.And(*asm) if asm else z3.BoolVal(True), min(timeout_ms, 30000))
                        dt += dt3
                        if r3 == "unsat":
                            r = "unsat"
                            stage = "complete-unrolling"
                            backend = f"z3-5.1.0 (complete unrolling, K={K})"
                            break
                except Exception as e:
                    rec["small_scope"] = f"error: {e}"
        if r == "unknown" and long_pending:
            r, dt2, model, s = check(o.pc, o.goal, timeout_ms)
            dt += dt2
            if r != "unknown":
                stage = "full-long"
            if r == "sat" and has_quantifier(list(o.pc) + [o.goal]):
                r, model = "unknown", None
        if r == "unknown" and i not in refute and os.environ.get("PYVC_TIER", "quick") == "thorough":
            # (b) thorough tier only: second attempt with a doubled budget and another seed, then other
            # solvers (on the unchanged tree every obligation is discharged by the stages above; these
            # late stages only prolong an `unknown`)
            t0 = time.time()
            r2, _, _, _ = check(light, o.goal, 2 * timeout_ms)
            if r2 != "unsat":
                s2 = z3.Solver()
                s2.set("timeout", 2 * timeout_ms)
                s2.set("mbqi", False)
                s2.set("random_seed", 7)
                for p in o.pc:
                    s2.add(p)
                s2.add(z3.Not(o.goal))
                r2 = str(s2.check())
            dt += time.time() - t0
            if r2 == "unsat":
                r = r2
                stage = "doubled"
            else:
                r3, backend3, dt3 = fallback(s, o.name, budget_s=max(20, timeout_ms // 1000))
                dt += dt3
                if r3 == "unsat":
                    r, backend = r3, backend3
                    stage = "external-long"
        rec.update(result=r, s=round(dt, 3), backend=backend, stage=stage)
        if r == "sat" and "model" not in rec:
            rec["model"] = extract_inputs(ctx, model, entry)
            rec["have_model"] = model is not None
        results.append(rec)
        if emit:
            emit(("result", i, rec))
    return dict(key=key, kind=kind, shard=k, results=results, gen_s=round(gen_s, 3), notes=notes, paths=paths, n_obls=len(obls))


def _serve(conn):
    """long-lived worker process: tasks in, progress events and a final summary out"""
    while True:
        try:
            msg = conn.recv()
        except EOFError:
            return
        if msg is None:
            return
        task, skip, refute = msg
        try:
            res = worker(task, emit=conn.send, skip=skip, refute=refute)
            res["results"] = []
            conn.send(("done", res))
        except Exception:  # noqa: BLE001
            conn.send(("done", dict(key=task[2], kind=task[1], shard=task[3], crash=traceback.format_exc(), results=[], gen_s=0.0)))


class _Slot:
    def __init__(self, ctxm):
        self.ctxm = ctxm
        self.spawn()

    def spawn(self):
        self.conn, child = self.ctxm.Pipe()
        self.proc = self.ctxm.Process(target=_serve, args=(child,), daemon=True)
        self.proc.start()
        child.close()
        self.task = None

    def kill(self):
        try:
            self.proc.kill()
            self.proc.join(5)
        except Exception:  # noqa: BLE001
            pass
        try:
            self.conn.close()
        except Exception:  # noqa: BLE001
            pass


def run_all(mods, contract_keys, lemma_names=(), jobs=16, shards=None, timeout_ms=None, deadline_s=None):
    """-> list of worker results.  Supervised pool: an obligation whose solver call ignores its
    time-out (or a generation that does not return) is killed after `deadline_s` and recorded as
    `unknown` (never as refuted); the rest of that task is resumed in a fresh process."""
    from multiprocessing.connection import wait

    shards = shards or {}
    timeout_ms = timeout_ms or TIMEOUT_MS
    deadline_s = deadline_s or int(os.environ.get("PYVC_DEADLINE_S", str(3 * timeout_ms // 1000 + 60)))
    tasks = []
    for key in contract_keys:
        n = shards.get(key, 1)
        for k in range(n):
            tasks.append((mods, "contract", key, k, n, timeout_ms))
    for name in lemma_names:
        n = shards.get(name, 1)
        for k in range(n):
            tasks.append((mods, "lemma", name, k, n, timeout_ms))
    if not tasks:
        return []
    ctxm = mp.get_context("spawn")
    state = {}  # task index -> dict(results, skip, cur, summary)
    queue = list(range(len(tasks)))
    for ti in queue:
        state[ti] = dict(results=[], skip=set(), refute=set(), cur=None, summary=None, kills=0)
    slots = [_Slot(ctxm) for _ in range(min(jobs, len(tasks)))]
    pending = len(tasks)

    def dispatch(slot):
        if not queue:
            return
        ti = queue.pop(0)
        slot.task = ti
        slot.t0 = time.time()
        state[ti]["cur"] = None
        slot.conn.send((tasks[ti], frozenset(state[ti]["skip"]), frozenset(state[ti]["refute"])))

    for sl in slots:
        dispatch(sl)
    while pending:
        busy = [sl for sl in slots if sl.task is not None]
        if not busy:
            for sl in slots:
                dispatch(sl)
            if not any(sl.task is not None for sl in slots):
                break
            continue
        ready = wait([sl.conn for sl in busy], timeout=1.0)
        now = time.time()
        for sl in busy:
            ti = sl.task
            st = state[ti]
            dead = False
            if sl.conn in ready:
                try:
                    while sl.conn.poll():
                        ev = sl.conn.recv()
                        if ev[0] == "start":
                            st["cur"] = ev
                            sl.t0 = now
                        elif ev[0] == "result":
                            st["results"].append(ev[2])
                            st["skip"].add(ev[1])
                            st["cur"] = None
                            sl.t0 = now
                        elif ev[0] == "done":
                            st["summary"] = ev[1]
                            sl.task = None
                            pending -= 1
                            dispatch(sl)
                            break
                except (EOFError, OSError):
                    dead = True
            if sl.task == ti and (dead or not sl.proc.is_alive() or now - sl.t0 > deadline_s):
                # stuck or died: record the obligation in flight as unknown and resume behind it
                why = "worker died" if (dead or not sl.proc.is_alive()) else f"killed after {deadline_s}s (solver ignored its time-out)"
                sl.kill()
                cur = st["cur"]
                st["kills"] += 1
                if cur is not None and cur[3] != "cover" and cur[1] not in st["refute"] and st["kills"] <= 12:
                    st["refute"].add(cur[1])  # once more, refutation search only
                    queue.insert(0, ti)
                elif cur is not None:
                    _, i, name, kind, line, note = cur
                    st["results"].append(dict(name=name, line=line, kind=kind if kind == "cover" else "assert", note=note, result="unknown", s=round(now - sl.t0, 1), backend=why))
                    st["skip"].add(i)
                    if st["kills"] <= 6:
                        queue.insert(0, ti)
                    else:
                        st["summary"] = dict(key=tasks[ti][2], kind=tasks[ti][1], shard=tasks[ti][3], drift=f"generation / solving did not finish ({why}, repeatedly)", gen_s=0.0)
                        pending -= 1
                else:
                    # nothing in flight: generation itself did not return
                    st["summary"] = dict(key=tasks[ti][2], kind=tasks[ti][1], shard=tasks[ti][3], drift=f"VC generation did not finish: {why}", gen_s=round(now - sl.t0, 1))
                    pending -= 1
                sl.spawn()
                dispatch(sl)
    for sl in slots:
        try:
            sl.conn.send(None)
        except Exception:  # noqa: BLE001
            pass
    for sl in slots:
        sl.proc.join(2)
        if sl.proc.is_alive():
            sl.kill()
    out = []
    for ti in range(len(tasks)):
        st = state[ti]
        summ = st["summary"] or dict(key=tasks[ti][2], kind=tasks[ti][1], shard=tasks[ti][3], drift="no result", gen_s=0.0)
        summ = dict(summ)
        summ["results"] = sorted(st["results"], key=lambda r: (r.get("line", 0), r["name"]))
        out.append(summ)
    return out
