"""Ad-hoc driver: python3-vt -m pyvc.cli <sidecar module>... [-k key]... [-j N] [-v]"""
import argparse
import json
import sys
import time

from . import api
from .solve import load_sidecars, run_all


def main():
    ap = argparse.ArgumentParser()
    ap.add_argument("mods", nargs="+")
    ap.add_argument("-k", action="append", default=[])
    ap.add_argument("-l", action="append", default=[])
    ap.add_argument("-j", type=int, default=16)
    ap.add_argument("-t", type=int, default=60000)
    ap.add_argument("-v", action="store_true")
    ap.add_argument("--shards", type=int, default=1)
    a = ap.parse_args()
    load_sidecars(a.mods)
    keys = a.k or ([k for k, c in api.CONTRACTS.items() if not c.trusted] if not a.l else [])
    lemmas = a.l if a.l else ([] if a.k else list(api.LEMMAS))
    t0 = time.time()
    res = run_all(a.mods, keys, lemmas, jobs=a.j, shards={k: a.shards for k in keys}, timeout_ms=a.t)
    tot = {"unsat": 0, "sat": 0, "unknown": 0}
    for r in res:
        if r.get("drift"):
            print(f"DRIFT   {r['key']}: {r['drift']}")
            continue
        if r.get("crash"):
            print(f"CRASH   {r['key']}:\n{r['crash']}")
            continue
        for o in r["results"]:
            if o["kind"] == "cover":
                if o["result"] != "sat" or a.v:
                    print(f"  cover {o['result']:7s} {o['name']} {o['s']}s")
                continue
            tot[o["result"]] = tot.get(o["result"], 0) + 1
            if o["result"] != "unsat" or a.v:
                print(f"  {o['result']:7s} {o['name']} {o['s']}s [{o.get('note','')[:90]}]")
                if o["result"] == "sat":
                    print("          model:", json.dumps(o.get("model"))[:400])
        print(f"{r['key']}[{r['shard']}]: {len(r['results'])} obligations, gen {r['gen_s']}s, paths {r.get('paths')}, notes {r.get('notes')}")
    print(tot, f"wall {time.time()-t0:.1f}s")


if __name__ == "__main__":
    main()
