#!/bin/sh
# offline set-up: byte-compile and run the engine self-test (no downloads, no venv)
cd "$(dirname "$0")" || exit 1
python3-vt -m compileall -q pyvc checker contracts spec bounded >/dev/null 2>&1
python3-vt -m pyvc.selftest || exit 1
exit 0
