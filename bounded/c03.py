"""C03 bounded stand-in: a step's position map describes exactly what the step did."""
from __future__ import annotations

import random

from spec import oracle as orc

from . import domain as D
from . import ops
from .common import Recorder
from .hist import HIST_SCHEMAS, check_map_faithful, histories, step_json

# "note": an inline atom with content (positions inside it are ordinary positions)
SCHEMAS = HIST_SCHEMAS + ["note"]


def run(tier, seed, findings):
    rec = Recorder("C03")
    for name in SCHEMAS:
        S, O = D.schema(name)
        # every step emitted by the high-level operations
        for doc, log, tr in histories(name, tier, seed):
            docs = tr.docs + [tr.doc]
            for i, st in enumerate(tr.steps):
                call = dict(fn="step-map", schema=name, doc=D.doc_json(docs[i]), step=step_json(st), origin="transform API")
                rec.case(("map", name, orc.canon_json(call)), sample=dict(schema=name, doc=str(docs[i]), step=step_json(st)))
                check_map_faithful(rec, name, docs[i], docs[i + 1], st, call)
                if orc.canon_json(tr.mapping.maps[i].ranges) != orc.canon_json(st.get_map().ranges):
                    rec.violation("recorded-map", "Transform recorded a map other than the step's", call)
        # primitive steps of every kind
        rnd = random.Random(seed)
        docs = [d for d in D.corpus(name, 8 if tier == "quick" else 30, seed) if d.content.size <= 20]
        pool = D.slice_pool(name, docs, rnd, 40)
        for doc in docs:
            for desc, step in ops.primitive_steps(name, doc, pool, rnd, 50 if tier == "quick" else 250):
                if not ops.step_positions_ok(doc, step) or not ops.step_payload_ok(name, doc, step):
                    continue
                try:
                    r = step.apply(doc)
                except Exception:  # noqa: BLE001
                    continue
                if r.failed:
                    continue
                call = dict(fn="step-map", schema=name, doc=D.doc_json(doc), step=step_json(step), origin="primitive")
                rec.case(("map", name, orc.canon_json(call)), sample=dict(schema=name, doc=str(doc), step=desc))
                check_map_faithful(rec, name, doc, r.doc, step, call)
    return rec.result(
        rule="every successfully applied step: those emitted by histories of transform operations and primitive steps of all kinds; size delta vs the map's ranges (taken from for_each) and every old token outside the ranges found at its mapped position; distinct by (schema, document, step JSON)",
        bounds=dict(tier=tier, schemas=SCHEMAS),
    )
