"""C17 bounded stand-in: steps touching strictly separated parts of a document commute
after rebasing over each other's map."""
from __future__ import annotations

import random

from spec import oracle as orc

from . import domain as D
from . import ops
from .common import Recorder, Timeout, time_limit
from .hist import HIST_SCHEMAS, step_json


def touched(step):
    if hasattr(step, "from_"):
        return step.from_, step.to
    if hasattr(step, "pos"):
        return step.pos, step.pos + 1
    return None


def inside(y, lo, hi):
    """the range y has content in common with the node whose opening / closing tokens are lo / hi
    (an empty range: lies inside it)"""
    if y[0] == y[1]:
        return lo < y[0] <= hi
    return y[0] < hi and y[1] > lo + 1


def boundary_event(toks, a, b, steps=None):
    """ghost event: step A rewrites the opening (or closing) token of a node that contains
    step B's range -- the two are then coupled through the schema although their tokens are
    separated"""
    match = {}
    st = []
    for i, t in enumerate(toks):
        if t[0] == "open":
            st.append(i)
        elif t[0] == "close":
            j = st.pop()
            match[i] = j
            match[j] = i
    for x, y in ((a, b), (b, a)):
        for i in range(x[0], min(x[1], len(toks))):
            if i in match:
                lo, hi = sorted((i, match[i]))
                if inside(y, lo, hi) and not (x[0] <= match[i] < x[1]):
                    return ["rewrites-boundary-of-enclosing-node"]
    # the same coupling by *insertion*: a replace step whose slice is open inserts unmatched closing /
    # opening tokens, i.e. it splits the nodes around its position (as many levels as the slice is open)
    # and the part after the split gets the type the slice says; the other step edits content of a node
    # that is split that way
    for (x, sx), y in (((a, steps[0]), b), ((b, steps[1]), a)) if steps else ():
        sl = getattr(sx, "slice", None)
        if sl is None or not (sl.open_start > 0 or sl.open_end > 0):
            continue
        anc = []  # enclosing nodes of position x[0], innermost last
        st2 = []
        for i, t in enumerate(toks[: x[0]]):
            if t[0] == "open":
                st2.append(i)
            elif t[0] == "close":
                st2.pop()
        anc = [(i, match[i]) for i in st2]
        k = max(sl.open_start, sl.open_end)
        for lo, hi in anc[len(anc) - k:] if k else []:
            if inside(y, lo, hi):
                return ["splits-enclosing-node-with-open-slice"]
    return []


def run(tier, seed, findings):
    from prosemirror.transform import Transform

    rec = Recorder("C17")
    rnd = random.Random(seed)
    for name in HIST_SCHEMAS:
        S, O = D.schema(name)
        docs = [d for d in D.corpus(name, 8 if tier == "quick" else 30, seed) if 6 <= d.content.size <= 26]
        pool = [s for s in D.slice_pool(name, docs, rnd, 40) if ops.slice_ok(O, s)]
        for doc in docs:
            steps = []
            for desc, kind, args in ops.highlevel_ops(name, doc, pool, rnd, 40 if tier == "quick" else 150):
                tr = Transform(doc)
                try:
                    with time_limit(2):
                        if not ops.apply_op(tr, kind, args, name):
                            continue
                except Exception:  # noqa: BLE001
                    continue
                if tr.steps:
                    steps.append((desc, tr.steps[0]))
            for desc, st in ops.primitive_steps(name, doc, pool, rnd, 30 if tier == "quick" else 100):
                if not ops.step_positions_ok(doc, st) or not ops.step_payload_ok(name, doc, st):
                    continue
                try:
                    r = st.apply(doc)
                except Exception:  # noqa: BLE001
                    continue
                if not r.failed:
                    steps.append((desc, st))
            applied = []
            for desc, st in steps:
                try:
                    r = st.apply(doc)
                except Exception:  # noqa: BLE001
                    continue
                if not r.failed and touched(st) is not None:
                    applied.append((desc, st, r.doc))
            for i, (d1, s1, r1) in enumerate(applied):
                for d2, s2, r2 in applied[i + 1:]:
                    a, b = touched(s1), touched(s2)
                    if not (a[1] < b[0] or b[1] < a[0]):
                        continue
                    call = dict(fn="commute", schema=name, doc=D.doc_json(doc), a=step_json(s1), b=step_json(s2))
                    ev = boundary_event(orc.tokens(doc), a, b, (s1, s2))
                    rec.case(("pair", name, orc.canon_json(call)), sample=dict(schema=name, doc=str(doc), a=d1, b=d2))
                    try:
                        s2m = s2.map(s1.get_map())
                        s1m = s1.map(s2.get_map())
                    except Exception as e:  # noqa: BLE001
                        rec.violation("rebase-raises", f"{type(e).__name__}: {e}", call)
                        continue
                    if s2m is None or s1m is None:
                        rec.violation("rebase-dropped", "a step was dropped although the touched ranges are separated", call)
                        continue
                    try:
                        x = s2m.apply(r1)
                        y = s1m.apply(r2)
                    except Exception as e:  # noqa: BLE001
                        rec.violation("rebased-raises", f"{type(e).__name__}: {e}", call)
                        continue
                    if x.failed or y.failed:
                        rec.violation("rebased-fails", f"{x.failed} / {y.failed}", call, ev)
                        continue
                    if not x.doc.eq(y.doc) or orc.tokens(x.doc) != orc.tokens(y.doc):
                        rec.violation("orders-differ", "the two orders of application give different documents", call, ev)
    return rec.result(
        rule="all pairs of steps applying to the same document whose touched ranges are separated by >= 1 token: first steps of every high-level operation (replace/fit, marks, split, join, lift, wrap, insert, retyping, node marks, attributes) and primitive steps; distinct by (schema, document, both step JSONs)",
        bounds=dict(tier=tier, schemas=HIST_SCHEMAS),
    )
