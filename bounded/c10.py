"""C10 bounded stand-in: no library operation changes a document, fragment, slice, mark set,
step or step map it was given or returned earlier; only a Transform / an appended-to Mapping grow."""
from __future__ import annotations

import json
import random

from spec import oracle as orc

from . import domain as D
from . import ops
from .common import Recorder, Timeout, time_limit

SCHEMAS = ["basic", "list", "table", "marksx"]


def snap_node(n):
    return orc.canon_json(D.doc_json(n))


def snap_slice(s):
    return orc.canon_json([D.frag_json(s.content), s.open_start, s.open_end, s.content.size])


def snap_step(st):
    d = {k: v for k, v in vars(st).items()}
    out = {}
    for k, v in d.items():
        if hasattr(v, "content") and hasattr(v, "open_start"):
            out[k] = snap_slice(v)
        elif hasattr(v, "type") and hasattr(v, "attrs"):
            out[k] = orc.mark_key(v)
        else:
            out[k] = orc.canon_json(v)
    return orc.canon_json(out)


def singletons():
    from prosemirror.model import ContentMatch, Fragment, Mark, Slice
    from prosemirror.model.node import empty_attrs
    from prosemirror.transform.map import StepMap

    return orc.canon_json(dict(frag=[len(Fragment.empty.content), Fragment.empty.size], none=len(Mark.none), slice=[Slice.empty.content.size, Slice.empty.open_start, Slice.empty.open_end],
                               stepmap=list(StepMap.empty.ranges), cm=[len(ContentMatch.empty.next), ContentMatch.empty.valid_end], ea=dict(empty_attrs)))


class Live:
    def __init__(self):
        self.items = []  # (kind, obj, snapshot)

    def add(self, kind, obj):
        try:
            s = {"node": snap_node, "slice": snap_slice, "step": snap_step, "marks": lambda m: orc.canon_json([orc.mark_key(x) for x in m]),
                 "map": lambda m: orc.canon_json([list(m.ranges), m.inverted])}[kind](obj)
        except Exception:  # noqa: BLE001
            return
        self.items.append((kind, obj, s))

    def check(self, rec, what, call):
        fns = {"node": snap_node, "slice": snap_slice, "step": snap_step, "marks": lambda m: orc.canon_json([orc.mark_key(x) for x in m]),
               "map": lambda m: orc.canon_json([list(m.ranges), m.inverted])}
        for kind, obj, s in self.items:
            try:
                now = fns[kind](obj)
            except Exception as e:  # noqa: BLE001
                now = f"unreadable: {e}"
            if now != s:
                rec.violation("mutated", f"a live {kind} changed during {what}: {s[:120]} -> {now[:120]}", call)
                return False
        return True


def run(tier, seed, findings):
    from prosemirror.model import DOMSerializer, Fragment, Node, Slice
    from prosemirror.model.from_dom import from_html
    from prosemirror.transform import Mapping, Step, Transform

    rec = Recorder("C10")
    rnd = random.Random(seed)
    sing0 = singletons()
    for name in SCHEMAS:
        S, O = D.schema(name)
        docs = [d for d in D.corpus(name, 8 if tier == "quick" else 30, seed) if d.content.size <= 24]
        pool = D.slice_pool(name, docs, rnd, 30)
        live = Live()
        for d in docs:
            live.add("node", d)
            for n in [d] + list(d.content.content):
                live.add("marks", n.marks)
        for s in pool:
            live.add("slice", s)
        marks = ops.marks_pool(S, O)
        ser = DOMSerializer.from_schema(S) if name in ("basic", "list") else None
        for doc in docs:
            size = doc.content.size
            call = dict(schema=name, doc=D.doc_json(doc))
            # ---- model queries and pure operations
            def q_model():
                for pos in range(size + 1):
                    try:
                        rp = doc.resolve(pos)
                        rp.marks(); rp.node_after; rp.node_before
                        doc.node_at(pos); doc.child_after(pos); doc.child_before(pos)
                    except ValueError:
                        pass
                for _ in range(10):
                    f, t = sorted((rnd.randint(0, size), rnd.randint(0, size)))
                    try:
                        s = doc.slice(f, t)
                        doc.cut(f, t)
                        doc.replace(f, t, rnd.choice(pool))
                        doc.text_between(f, t)
                        doc.range_has_mark(f, t, marks[0])
                        s.content.append(rnd.choice(pool).content)
                        doc.content.find_diff_start(rnd.choice(docs).content)
                        doc.content.find_diff_end(rnd.choice(docs).content)
                    except ValueError:
                        pass
                for m in marks:
                    for n in doc.content.content:
                        m.add_to_set(n.marks); m.remove_from_set(n.marks)
                        n.type.allowed_marks(n.marks)
                doc.check()
            # ---- JSON
            def q_json():
                j = doc.to_json()
                Node.from_json(S, json.loads(json.dumps(j)))
                for s in pool[:10]:
                    js = s.to_json()
                    Slice.from_json(S, js)
            # ---- DOM
            def q_dom():
                if ser is not None:
                    h = str(ser.serialize_fragment(doc.content))
                    from_html(S, h)
            # ---- steps and transform operations
            def q_steps():
                for desc, st in ops.primitive_steps(name, doc, pool, rnd, 25 if tier == "quick" else 80):
                    live.add("step", st)
                    try:
                        r = st.apply(doc)
                        m = st.get_map()
                        live.add("map", m)
                        st.invert(doc); st.map(m); st.to_json(); st.merge(st)
                        if r.doc is not None:
                            live.add("node", r.doc)
                    except Exception:  # noqa: BLE001
                        pass
            def q_transform():
                tr = Transform(doc)
                grown = [0, 0, 0]
                for desc, kind, args in ops.highlevel_ops(name, doc, pool, rnd, 12 if tier == "quick" else 40):
                    before = (len(tr.steps), len(tr.docs), len(tr.mapping.maps))
                    prev_steps = list(tr.steps)
                    prev_docs = list(tr.docs)
                    try:
                        with time_limit(2):
                            ops.apply_op(tr, kind, args, name)
                    except Exception:  # noqa: BLE001
                        pass
                    except Timeout:
                        pass
                    after = (len(tr.steps), len(tr.docs), len(tr.mapping.maps))
                    if any(a < b for a, b in zip(after, before)) or tr.steps[: before[0]] != prev_steps or tr.docs[: before[1]] != prev_docs:
                        rec.violation("accumulator-not-append-only", f"{desc}: steps/docs/maps {before} -> {after}", call)
                    live.add("node", tr.doc)
                # mapping: slices, copies and inversion do not disturb the original
                mp = tr.mapping
                snap = [(list(m.ranges), m.inverted) for m in mp.maps]
                mir = list(mp.mirror) if mp.mirror else None
                mp.slice(0, len(mp.maps) // 2).map(1); mp.invert(); c = mp.copy(); c.append_map(mp.maps[0] if mp.maps else __import__("prosemirror.transform.map", fromlist=["StepMap"]).StepMap([0, 0, 1]))
                m2 = Mapping(); m2.append_mapping(mp); m2.append_mapping_inverted(mp)
                if [(list(m.ranges), m.inverted) for m in mp.maps] != snap or (list(mp.mirror) if mp.mirror else None) != mir:
                    rec.violation("mapping-disturbed", "slicing / copying / inverting / appending FROM a mapping changed it", call)
            for what, fn in (("model queries", q_model), ("JSON conversion", q_json), ("DOM conversion", q_dom), ("steps", q_steps), ("transform operations", q_transform)):
                rec.case((what, name, orc.canon_json(D.doc_json(doc))), sample=dict(schema=name, doc=str(doc), batch=what))
                try:
                    fn()
                except Exception as e:  # noqa: BLE001
                    rec.count(f"batch '{what}' raised {type(e).__name__} (subject of another property)")
                if not live.check(rec, what, call):
                    break
                if singletons() != sing0:
                    rec.violation("singleton-mutated", f"a shared singleton changed during {what}: {singletons()}", call)
                    break
    return rec.result(
        rule="for every corpus document: batches of model queries, replaces, mark-set operations, JSON and DOM conversion, primitive steps (apply / invert / map / merge / to_json) and transform histories; after every batch the canonical dump of EVERY live document, slice, mark list, step and step map and of the shared singletons must be unchanged; Transform / Mapping may only grow by appending; distinct by (batch, schema, document)",
        bounds=dict(tier=tier, schemas=SCHEMAS),
    )
