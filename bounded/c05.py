"""C05 bounded stand-in: JSON serialisation of documents, slices, marks and steps is lossless."""
from __future__ import annotations

import copy
import json
import random

from spec import oracle as orc

from . import domain as D
from . import ops
from .common import Recorder

SCHEMAS = ["basic", "list", "table", "marksx"]


def roundtrip(x):
    return json.loads(json.dumps(x))


def mutate_json(j):
    """write into every mutable container of a JSON value"""
    if isinstance(j, dict):
        for v in list(j.values()):
            mutate_json(v)
        j["__poison__"] = 1
    elif isinstance(j, list):
        for v in j:
            mutate_json(v)
        j.append("__poison__")


def run(tier, seed, findings):
    from prosemirror.model import Fragment, Mark, Node, Slice
    from prosemirror.transform import Step
    from prosemirror.transform.step import STEPS_BY_ID

    rec = Recorder("C05")
    rnd = random.Random(seed)
    exp_names = {"replace", "replaceAround", "addMark", "removeMark", "addNodeMark", "removeNodeMark", "attr", "docAttr"}
    if set(STEPS_BY_ID) != exp_names:
        rec.violation("registry", f"registered step names {sorted(STEPS_BY_ID)}", dict(fn="STEPS_BY_ID"))
    for name in SCHEMAS:
        S, O = D.schema(name)
        docs = [d for d in D.corpus(name, 12 if tier == "quick" else 50, seed) if d.content.size <= 26]
        # documents with explicit None / structured attribute values
        extra = []
        for d in docs[:10]:
            js = D.doc_json(d)
            for val in (None, {"k": [1, 2]}):

                def tweak(j):
                    if j.get("a"):
                        for k in list(j["a"]):
                            j["a"][k] = val
                    for c in j.get("c", []):
                        tweak(c)

                j2 = copy.deepcopy(js)
                tweak(j2)
                if j2 == js:
                    continue
                try:
                    extra.append(D.from_json(S, j2))
                except Exception:  # noqa: BLE001
                    pass
        pool = D.slice_pool(name, docs, rnd, 40 if tier == "quick" else 120)
        structured = [Mark(mt, {k: {"ids": ["c1", {"n": 2}]} for k in mt.attrs}) for mt in S.marks.values() if mt.attrs]
        for m in structured:
            try:
                d_ = D.mk_node(S, O.top, [D.mk_node(S, "paragraph", [D.mk_text(S, "t", [m]), D.mk_text(S, "u")])])
                if O.valid(d_) is None:
                    extra.append(d_)
            except Exception:  # noqa: BLE001
                pass
        for doc in docs + extra:
            call = dict(fn="Node.to_json/from_json", schema=name, doc=D.doc_json(doc))
            rec.case(("doc", name, orc.canon_json(call)), sample=dict(schema=name, doc=str(doc)))
            try:
                before = orc.canon_json(D.doc_json(doc))
                j = doc.to_json()
                j2 = roundtrip(j)
                back = Node.from_json(S, j2)
                if not back.eq(doc) or orc.canon_json(D.doc_json(back)) != before:
                    rec.violation("doc-roundtrip", "decoded document differs from the original", call)
                elif orc.canon_json(back.to_json()) != orc.canon_json(j):
                    rec.violation("doc-reserialise", "re-serialisation differs", call)
                mutate_json(j)
                if orc.canon_json(D.doc_json(doc)) != before:
                    rec.violation("doc-json-aliases", "mutating the produced JSON changed the document", call)
                fj = doc.content.to_json()
                fb = Fragment.from_json(S, roundtrip(fj))
                if not fb.eq(doc.content):
                    rec.violation("fragment-roundtrip", "decoded fragment differs", call)
            except Exception as e:  # noqa: BLE001
                rec.violation("doc-json-raises", f"{type(e).__name__}: {e}", call)
        for s in pool:
            call = dict(fn="Slice.to_json/from_json", schema=name, slice=D.slice_json(s))
            rec.case(("slice", name, orc.canon_json(call)), sample=dict(schema=name, slice=str(s)))
            try:
                j = s.to_json()
                back = Slice.from_json(S, roundtrip(j))
                if not back.eq(s):
                    rec.violation("slice-roundtrip", f"decoded slice {back} differs from {s}", call)
                elif orc.canon_json(back.to_json()) != orc.canon_json(j):
                    rec.violation("slice-reserialise", "re-serialisation differs", call)
            except Exception as e:  # noqa: BLE001
                rec.violation("slice-json-raises", f"{type(e).__name__}: {e}", call)
        # marks whose attribute values are structured (lists / dictionaries are legitimate JSON attribute values)
        for m in ops.marks_pool(S, O) + structured:
            call = dict(fn="Mark.to_json/from_json", schema=name, mark=orc.mark_key(m))
            rec.case(("mark", name, orc.canon_json(call)))
            try:
                j = m.to_json()
                back = Mark.from_json(S, roundtrip(j))
                if not back.eq(m) or orc.canon_json(back.to_json()) != orc.canon_json(j):
                    rec.violation("mark-roundtrip", "decoded mark differs", call)
                ab = orc.canon_json(m.attrs)
                mutate_json(j)
                if orc.canon_json(m.attrs) != ab:
                    rec.violation("mark-json-aliases", "mutating the JSON changed the mark", call)
            except Exception as e:  # noqa: BLE001
                rec.violation("mark-json-raises", f"{type(e).__name__}: {e}", call)
        # steps
        for doc in docs[: (10 if tier == "quick" else 40)]:
            steps = ops.primitive_steps(name, doc, pool, rnd, 60 if tier == "quick" else 250)
            from prosemirror.transform import AttrStep
            from prosemirror.transform.doc_attr_step import DocAttrStep

            steps += [("AttrStep structured", AttrStep(rnd.randint(0, doc.content.size), "level", {"k": [1, 2]})),
                      ("AttrStep None", AttrStep(0, "level", None)),
                      ("DocAttrStep structured", DocAttrStep("meta", {"k": [1]}))]
            from prosemirror.transform import AddMarkStep, AddNodeMarkStep, RemoveMarkStep, RemoveNodeMarkStep

            for m in structured[:2]:
                f_, t_ = sorted((rnd.randint(0, doc.content.size), rnd.randint(0, doc.content.size)))
                steps += [("AddMarkStep structured", AddMarkStep(f_, t_, m)), ("RemoveMarkStep structured", RemoveMarkStep(f_, t_, m)),
                          ("AddNodeMarkStep structured", AddNodeMarkStep(f_, m)), ("RemoveNodeMarkStep structured", RemoveNodeMarkStep(f_, m))]
            for desc, step in steps:
                call = dict(fn="Step.to_json/from_json", schema=name, doc=D.doc_json(doc), step=desc)
                try:
                    j = step.to_json()
                    j_canon = orc.canon_json(j)
                    rec.case(("step", name, j_canon), sample=dict(schema=name, step=j))
                    if json.loads(json.dumps(j)) != json.loads(j_canon):
                        rec.violation("step-json-not-plain", "not plain JSON data", call)
                    back = Step.from_json(S, roundtrip(j))
                    j_back = back.to_json()
                    if type(back) is not type(step):
                        rec.violation("step-type", f"decoded as {type(back).__name__}", call)
                        continue
                    if orc.canon_json(j_back) != j_canon:
                        rec.violation("step-reserialise", "re-serialisation differs", call)
                    # equal payload
                    for a in ("from_", "to", "gap_from", "gap_to", "insert", "structure", "pos", "attr"):
                        if hasattr(step, a) and getattr(step, a) != getattr(back, a):
                            rec.violation("step-field", f"field {a}: {getattr(step, a)!r} -> {getattr(back, a)!r}", call)
                    if hasattr(step, "slice") and not back.slice.eq(step.slice):
                        rec.violation("step-slice", f"slice {step.slice} decoded as {back.slice}", call, events=["zero-size-slice"] if step.slice.size == 0 and step.slice.content.size else [])
                    if hasattr(step, "mark") and not back.mark.eq(step.mark):
                        rec.violation("step-mark", "mark differs", call)
                    if hasattr(step, "value") and orc.canon_json(back.value) != orc.canon_json(step.value):
                        rec.violation("step-value", "value differs", call)
                    # identical effect and map
                    def eff(st):
                        try:
                            r = st.apply(doc)
                            return ("failed", r.failed) if r.failed else ("doc", orc.canon_json(D.doc_json(r.doc)))
                        except ValueError as e:
                            return ("ValueError",)
                        except Exception as e:  # noqa: BLE001
                            return ("error", type(e).__name__)
                    e1, e2 = eff(step), eff(back)
                    if e1[0] != e2[0] or (e1[0] == "doc" and e1 != e2):
                        rec.violation("step-effect", f"original: {e1[0]}, decoded: {e2[0]}", call, events=["zero-size-slice"] if hasattr(step, "slice") and step.slice.size == 0 and step.slice.content.size else [])
                    if step.get_map().ranges != back.get_map().ranges:
                        rec.violation("step-map", "position map differs", call)
                    # no aliasing of live values
                    if hasattr(step, "value"):
                        vb = orc.canon_json(step.value)
                        mutate_json(j)
                        if orc.canon_json(step.value) != vb:
                            rec.violation("step-json-aliases", "mutating the JSON changed the step's value", call)
                    elif hasattr(step, "mark"):
                        vb = orc.canon_json(step.mark.attrs)
                        mutate_json(j)
                        if orc.canon_json(step.mark.attrs) != vb:
                            rec.violation("step-json-aliases", "mutating the JSON changed the step's mark", call)
                except ValueError:
                    rec.count("rejected by from_json (ValueError)")
                except Exception as e:  # noqa: BLE001
                    rec.violation("step-json-raises", f"{type(e).__name__}: {e}", call)
    return rec.result(
        rule="documents (incl. explicit None / structured attribute values), fragments, slices (open, zero-size), marks and primitive steps of all eight kinds through json.dumps/loads: equality, identical re-serialisation, same apply result and map on the document, no aliasing of live attribute / value objects, registry names; distinct by canonical JSON",
        bounds=dict(tier=tier, schemas=SCHEMAS),
    )
