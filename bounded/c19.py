"""C19 bounded stand-in (nothing deductive is claimed): HTML import is total and valid;
export then import is the identity on whitespace-normal documents."""
from __future__ import annotations

import html as htmlmod
import random
import re

from spec import oracle as orc

from . import domain as D
from .common import Recorder, Timeout, time_limit

TEXTS = ["a", " ", "a b", " a ", "\n", "x<y&z", "q\"r"]


def gen_html(rnd, depth=0, budget=None):
    budget = budget if budget is not None else [rnd.randint(1, 7)]
    out = []
    n = rnd.randint(1, 3)
    for _ in range(n):
        if budget[0] <= 0 or rnd.random() < 0.3:
            out.append(htmlmod.escape(rnd.choice(TEXTS), quote=False))
            continue
        budget[0] -= 1
        tag = rnd.choice(["p", "h1", "h2", "blockquote", "pre", "ul", "ol", "li", "hr", "div", "table", "tr", "td", "em", "strong", "b", "i",
                          "a", "img", "br", "code", "span", "foo", "script"])
        attrs = ""
        if tag == "a" and rnd.random() < 0.6:
            attrs = ' href="http://x/?a=1&amp;b=2"'
        if tag == "img" and rnd.random() < 0.6:
            attrs = ' src="i.png"' + (' title="t"' if rnd.random() < 0.3 else "")
        if tag == "ol" and rnd.random() < 0.4:
            attrs = ' start="3"'
        if tag == "span":
            attrs = rnd.choice([' style="font-weight: bold"', ' style="font-style: italic"', ' style="color: red"', "", ' class="fn"', ' class="fn"'])
        if tag in ("hr", "img", "br"):
            out.append(f"<{tag}{attrs}>")
        elif depth >= 4:
            out.append(f"<{tag}{attrs}></{tag}>")
        else:
            inner = gen_html(rnd, depth + 1, budget) if rnd.random() < 0.85 else ""
            out.append(f"<{tag}{attrs}>{inner}</{tag}>")
    return "".join(out)


FIXED = ["<ul></ul>", "<ol></ol>", "<a>x</a>", "<p><a>x</a></p>", "<img>", "<p><img></p>", "<ol start=\"3\"><li><p>a</p></li></ol>", "<p><em>a</em> <strong>b</strong></p>",
         "<pre>  code  \n x</pre>", "<li>a</li>", "<table><tr><td>a</td></tr></table>", "<foo>bar</foo>", "", "   ", "<p></p>", "<blockquote></blockquote>",
         "<p><code>a</code> <code>b</code></p>", "<h1><p>x</p></h1>", "<p><ul><li>a</li></ul></p>", "<ul><li>a<ul><li>b</li></ul></li></ul>", "<pre><em>x</em></pre>",
         "<p><span style=\"font-weight: bold\">a</span></p>", "<div><p>a</p>b</div>"]


def ws_normal(doc):
    ok = [True]

    def walk(n, in_code):
        kids = n.content.content
        for i, k in enumerate(kids):
            if k.type.name == "text":
                t = k.text
                if in_code:
                    if "\r" in t:
                        ok[0] = False
                    continue
                if "\n" in t or "  " in t or "\t" in t:
                    ok[0] = False
                if i == 0 and t.startswith(" "):
                    ok[0] = False
                if i == len(kids) - 1 and t.endswith(" "):
                    ok[0] = False
                if i > 0 and kids[i - 1].type.name == "text" and kids[i - 1].text.endswith(" ") and t.startswith(" "):
                    ok[0] = False
                if i > 0 and kids[i - 1].type.name == "hard_break" and t.startswith(" "):
                    ok[0] = False
                if i < len(kids) - 1 and kids[i + 1].type.name == "hard_break" and t.endswith(" "):
                    ok[0] = False
            else:
                if k.type.name == "image" and (k.attrs.get("alt") is not None):
                    ok[0] = False
                if k.type.name == "ordered_list" and k.attrs.get("order") != 1:
                    ok[0] = False
                if k.type.name == "heading" and k.attrs.get("level") not in (1, 2, 3, 4, 5, 6):
                    ok[0] = False
                if not isinstance(k.attrs.get("src", ""), str) or not isinstance(k.attrs.get("title", "") or "", str):
                    ok[0] = False
                for m in k.marks:
                    if m.type.name == "link" and (m.attrs.get("title") is not None or not isinstance(m.attrs.get("href"), str)):
                        ok[0] = False
                walk(k, in_code or k.type.name == "code_block")
            if k.type.name == "text":
                for m in k.marks:
                    if m.type.name == "link" and (m.attrs.get("title") is not None or not isinstance(m.attrs.get("href"), str)):
                        ok[0] = False

    walk(doc, False)
    # document-level attributes have no HTML representation in the bundled rules
    if any(v is not None for v in (doc.attrs or {}).values()):
        return False
    return ok[0]


NOTE_FIXED = ['<p><b>see <span class="fn">note</span> here</b></p>', '<p>a <i><b>b<span class="fn">n</span></b> c</i></p>', "<b><pre>code</pre></b>",
              '<p><span class="fn"><b>x</b></span></p>', '<p><a href="u">l<span class="fn">n<em>m</em></span></a></p>', '<em><p>a<span class="fn">b</span></p></em>']


def run(tier, seed, findings):
    import lxml.html

    from prosemirror.model import DOMParser, DOMSerializer, Node
    from prosemirror.model.from_dom import from_html

    rec = Recorder("C19")
    rnd = random.Random(seed)
    for name in ("basic", "list"):
        S, O = D.schema(name)
        htmls = list(FIXED) + [gen_html(rnd) for _ in range(400 if tier == "quick" else 5000)]
        hangs = 0
        for h in htmls:
            call = dict(fn="from_html", schema=name, html=h)
            rec.case(("parse", name, h), nontrivial="<" in h, sample=call)
            if hangs > 5:
                break
            try:
                with time_limit(3):
                    js = from_html(S, h)
                doc = Node.from_json(S, js)
            except Timeout:
                hangs += 1
                rec.violation("parse-hangs", "no return within 3 s", call)
                continue
            except Exception as e:  # noqa: BLE001
                ev = []
                if isinstance(e, StopIteration):
                    ev = ["empty-list-normalisation"]
                rec.violation("parse-raises", f"{type(e).__name__}: {e}", call, ev)
                continue
            why = O.valid(doc)
            if why:
                rec.violation("parse-invalid", why, call)
        ser = DOMSerializer.from_schema(S)
        docs = list(D.corpus(name, 20 if tier == "quick" else 100, seed))
        T = lambda x, *m: {"t": "text", "x": x, "m": list(m)}  # noqa: E731
        P = lambda *c: {"t": "paragraph", "c": list(c)}  # noqa: E731
        for js in [
            {"t": "doc", "c": [P(T("a", "em"), T(" "), T("b", "strong"))]},
            {"t": "doc", "c": [P(T("a "), T("b", "em"), T(" c"))]},
            {"t": "doc", "c": [P(T("x", "strong"), T(" "), T("y", "em"), T(" "), T("z", "code"))]},
            {"t": "doc", "c": [{"t": "code_block", "c": [T("  a  b\n   c ")]}, P(T("t"))]},
            {"t": "doc", "c": [{"t": "code_block", "c": [T("x\n\ny")]}]},
            # empty-string attribute values must survive the round trip
            {"t": "doc", "c": [P(T("here", ["link", {"href": ""}]), {"t": "image", "a": {"src": "", "title": ""}}, {"t": "image", "a": {"src": "i.png", "title": ""}})]},
        ]:
            docs.append(D.from_json(S, js))
        for doc in docs:
            call = dict(fn="serialize", schema=name, doc=D.doc_json(doc))
            rec.case(("ser", name, orc.canon_json(D.doc_json(doc))), sample=dict(schema=name, doc=str(doc)))
            try:
                out = str(ser.serialize_fragment(doc.content))
            except Exception as e:  # noqa: BLE001
                ev = ["non-string-attribute"] if any(isinstance(v, (int, dict, list)) and not isinstance(v, bool) for n in [doc] for v in []) else []
                rec.violation("serialize-raises", f"{type(e).__name__}: {e}", call, ev)
                continue
            try:
                frag = lxml.html.fragment_fromstring(out, create_parent="div")
                txt = "".join(frag.itertext())
                if txt != doc.text_content and not any(k.type.name == "code_block" for k in doc.content.content):
                    # text survives escaping (code blocks are compared in the round trip below)
                    if txt.replace("\r", "") != doc.text_content:
                        rec.violation("serialize-text", f"serialised text {txt!r} differs from the document's {doc.text_content!r}", call)
            except Exception as e:  # noqa: BLE001
                rec.violation("serialize-unparsable", f"{type(e).__name__}: {e}", call)
                continue
            if ws_normal(doc):
                try:
                    with time_limit(3):
                        back = Node.from_json(S, from_html(S, out))
                except Timeout:
                    rec.violation("roundtrip-hangs", "", dict(call, html=out))
                    continue
                except Exception as e:  # noqa: BLE001
                    rec.violation("roundtrip-raises", f"{type(e).__name__}: {e}", dict(call, html=out))
                    continue
                if not back.eq(doc):
                    rec.violation("roundtrip", f"parse(serialize(doc)) = {back}", dict(call, html=out))
                else:
                    rec.count("round trips")
    # a schema whose inline node has content and forbids marks (a footnote), and whose top node admits marks: an
    # element that opens a new node context while marks are active (`<b>..<span class=fn>..</span>..</b>`, `<b><pre>`)
    S, O = D.schema("notehtml")
    for h in NOTE_FIXED + [gen_html(rnd) for _ in range(300 if tier == "quick" else 3000)]:
        call = dict(fn="from_html", schema="notehtml", html=h)
        rec.case(("parse", "notehtml", h), nontrivial="<" in h, sample=call)
        try:
            with time_limit(3):
                doc = Node.from_json(S, from_html(S, h))
        except Timeout:
            rec.violation("parse-hangs", "no return within 3 s", call)
            continue
        except Exception as e:  # noqa: BLE001
            rec.violation("parse-raises", f"{type(e).__name__}: {e}", call, ["empty-list-normalisation"] if isinstance(e, StopIteration) else [])
            continue
        why = O.valid(doc)
        if why:
            rec.violation("parse-invalid", why, call)
    context_rules(rec, rnd, tier)
    return rec.result(
        rule="HTML fragments from a grammar over block / inline / list / table / unknown tags (<= 7 elements, depth <= 4, texts incl. whitespace and characters needing escaping, style attributes, optional attributes) + fixed edge cases: parse terminates (3 s) and is oracle-valid (bundled schemas, and a schema with a mark-free inline node with content under a top node admitting marks); corpus + generated documents: serialisation succeeds, text survives, and whitespace-normal documents round-trip; context rules vs an oracle matcher; distinct by HTML string / document JSON",
        bounds=dict(tier=tier),
    )


def context_rules(rec, rnd, tier):
    """parse rules restricted by a context expression apply exactly when the open ancestors match"""
    import copy

    from prosemirror.model import Node, Schema
    from prosemirror.model.from_dom import from_html

    base = D.SPECS["basic"]()
    for ctx in ["blockquote/", "doc/", "blockquote/paragraph/", "doc//", "blockquote|doc/", "paragraph/"]:
        nodes = dict(base["nodes"])
        nodes["special"] = {"inline": True, "group": "inline", "parseDOM": [{"tag": "span.sp", "context": ctx}], "toDOM": lambda n: ["span", {"class": "sp"}]}
        # the special node must come first so that its rule is tried before the default ones
        nodes = {"special": nodes.pop("special"), **nodes}
        spec = dict(nodes=nodes, marks=base["marks"])
        try:
            S = Schema(spec)
        except Exception as e:  # noqa: BLE001
            rec.violation("context-schema", f"{type(e).__name__}: {e}", dict(ctx=ctx))
            continue
        for h, anc in [("<p><span class=\"sp\"></span></p>", ["doc", "paragraph"]),
                       ("<blockquote><p><span class=\"sp\"></span></p></blockquote>", ["doc", "blockquote", "paragraph"]),
                       ("<blockquote><blockquote><p>x<span class=\"sp\"></span></p></blockquote></blockquote>", ["doc", "blockquote", "blockquote", "paragraph"])]:
            call = dict(fn="from_html(context)", context=ctx, html=h)
            rec.case(("ctx", ctx, h), sample=call)
            try:
                with time_limit(3):
                    doc = Node.from_json(S, from_html(S, h))
            except Timeout:
                rec.violation("context-hangs", "no return within 3 s", call, ["matches-context"])
                continue
            except Exception as e:  # noqa: BLE001
                rec.violation("context-raises", f"{type(e).__name__}: {e}", call, ["matches-context"])
                continue
            has = "special" in orc.canon_json(D.doc_json(doc))
            exp = any(ctx_match(alt, anc) for alt in re.split(r"\s*\|\s*", ctx))
            if has != exp:
                rec.violation("context-applies", f"rule {'applied' if has else 'not applied'} with open ancestors {anc}, context {ctx!r}", call, ["matches-context"])


def ctx_match(ctx, anc):
    """oracle: the context expression 'a/b/' matches when the innermost open ancestors are
    ... a, b; an empty part ('//') stands for any number of ancestors"""
    parts = ctx.split("/")
    if parts and parts[-1] == "":
        parts = parts[:-1]

    def m(pi, ai):
        if pi < 0:
            return True
        if parts[pi] == "":
            return any(m(pi - 1, k) for k in range(ai, -2, -1))
        if ai < 0:
            return False
        if anc[ai] != parts[pi]:
            return False
        return m(pi - 1, ai - 1)

    return m(len(parts) - 1, len(anc) - 1)
