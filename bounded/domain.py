"""Domains for the bounded drivers: schema variants, documents, slices, steps.

Documents are built with the low-level constructors (Node / TextNode / Fragment / Mark) and
validated by the independent oracle (spec.oracle), never by the functions under test."""
from __future__ import annotations

import copy
import itertools
import json
import random

from spec import oracle as orc

ASTRAL = "\U0001d4b3"  # one code point, two UTF-16 units


# ---------------------------------------------------------------- schema specs
def _basic_spec():
    from prosemirror.schema.basic import schema as basic

    return dict(nodes=dict(basic.spec["nodes"]), marks=dict(basic.spec["marks"]))


def _list_spec():
    from prosemirror.schema.list import add_list_nodes

    s = _basic_spec()
    nodes = add_list_nodes(s["nodes"], "paragraph block*", "block")
    nodes = dict(nodes)
    nodes["doc"] = {"content": "block+", "attrs": {"meta": {"default": None}}}
    return dict(nodes=nodes, marks=s["marks"])


def _strict_spec():
    s = _list_spec()
    nodes = dict(s["nodes"])
    nodes["doc"] = {"content": "heading body"}
    nodes["body"] = {"content": "block+"}
    return dict(nodes=nodes, marks=s["marks"])


def _title_spec():
    s = _list_spec()
    nodes = dict(s["nodes"])
    nodes["doc"] = {"content": "title? block*"}
    nodes["title"] = {"content": "text*"}
    return dict(nodes=nodes, marks=s["marks"])


def _iso_spec():
    s = _list_spec()
    nodes = dict(s["nodes"])
    nodes["box"] = {"content": "block+", "group": "block", "isolating": True}
    return dict(nodes=nodes, marks=s["marks"])


def _table_spec():
    s = _list_spec()
    nodes = dict(s["nodes"])
    nodes["table"] = {"content": "row+", "group": "block", "isolating": True}
    nodes["row"] = {"content": "cell+"}
    nodes["cell"] = {"content": "block+", "isolating": True}
    return dict(nodes=nodes, marks=s["marks"])


def _marksx_spec():
    s = _basic_spec()
    marks = {
        "link": dict(s["marks"]["link"]),
        "em": dict(s["marks"]["em"]),
        "strong": {**s["marks"]["strong"], "excludes": "em"},
        "code": {**s["marks"]["code"], "excludes": "_"},
        "hl": {"attrs": {"c": {"default": "y"}}, "excludes": ""},
        # asymmetric exclusions (hi excludes sm, lock excludes hi) and a second non-inclusive mark
        "sm": {},
        "hi": {"excludes": "sm"},
        "lock": {"excludes": "hi"},
        "cm": {"inclusive": False, "excludes": ""},
    }
    nodes = dict(s["nodes"])
    nodes["heading"] = {**nodes["heading"], "marks": "em strong"}
    # a block admitting exactly one mark type, and that type does not exclude itself: its text may carry the mark
    # several times (different attributes), i.e. more marks than the node admits mark types
    nodes["aside"] = {"content": "inline*", "group": "block", "marks": "hl"}
    return dict(nodes=nodes, marks=marks)


def _note_spec():
    """an inline atom that nevertheless has content (ProseMirror's footnote example): `is_atom` and `is_leaf` /
    `is_text` come apart here, which no schema of the repository's tests exercises"""
    s = _list_spec()
    nodes = dict(s["nodes"])
    nodes["footnote"] = {"group": "inline", "content": "text*", "inline": True, "atom": True}
    return dict(nodes=nodes, marks=s["marks"])


def _notehtml_spec():
    s = _list_spec()
    nodes = dict(s["nodes"])
    nodes["doc"] = {"content": "block+", "marks": "_"}
    nodes["footnote"] = {"group": "inline", "content": "text*", "inline": True, "atom": True, "marks": "",
                         "parseDOM": [{"tag": "span.fn"}], "toDOM": lambda node: ["span", {"class": "fn"}, 0]}
    return dict(nodes=nodes, marks=s["marks"])


SPECS = {
    "notehtml": _notehtml_spec,
    "note": _note_spec,
    "basic": _basic_spec,
    "list": _list_spec,
    "strict": _strict_spec,
    "title": _title_spec,
    "iso": _iso_spec,
    "table": _table_spec,
    "marksx": _marksx_spec,
}

_CACHE: dict = {}


def schema(name):
    """-> (real Schema, oracle OSchema)"""
    if name not in _CACHE:
        from prosemirror.model import Schema

        spec = SPECS[name]()
        _CACHE[name] = (Schema(copy.copy(spec)), orc.OSchema(spec))
    return _CACHE[name]


# ---------------------------------------------------------------- low-level construction
def mk_mark(S, name, attrs=None):
    from prosemirror.model import Mark

    mt = S.marks[name]
    a = {}
    for k, spec in (mt.spec.get("attrs") or {}).items():
        a[k] = (attrs or {}).get(k, spec.get("default", "x"))
    return Mark(mt, a)


def mk_text(S, text, marks=()):
    from prosemirror.model.node import TextNode

    return TextNode(S.nodes["text"], {}, text, list(marks))


def mk_node(S, name, children=(), attrs=None, marks=()):
    from prosemirror.model import Fragment, Node

    nt = S.nodes[name]
    a = {}
    for k, spec in (nt.spec.get("attrs") or {}).items():
        a[k] = (attrs or {}).get(k, spec.get("default", "x.png"))
    kids = list(children)
    return Node(nt, a, Fragment(kids, sum(orc.node_size(k) for k in kids)) if kids else None, list(marks))


def from_json(S, js):
    """low-level builder from a compact JSON form {t, c?, a?, m?, x?}"""
    marks = [mk_mark(S, m if isinstance(m, str) else m[0], None if isinstance(m, str) else m[1]) for m in js.get("m", [])]
    if js["t"] == "text":
        return mk_text(S, js["x"], marks)
    return mk_node(S, js["t"], [from_json(S, c) for c in js.get("c", [])], js.get("a"), marks)


# ---------------------------------------------------------------- random valid documents
def canonical_mark_subsets(O, parent, rnd, kmax=2):
    if len(O.marks) > 5:
        kmax = 3
    names = [m for m in O.marks if O.allows(parent, m)]
    rnd.shuffle(names)
    cur = []
    for n in names[: rnd.randint(0, kmax)]:
        attrs = {}
        for k, spec in O.marks[n].attrs.items():
            attrs[k] = rnd.choice(["foo", "bar", ""]) if "default" not in spec else rnd.choice([spec["default"], "z", ""])
        cur = O.spec_add((n, orc.canon_json(attrs)), cur)
        # a mark type that does not exclude itself may be present more than once (with different attributes)
        if attrs and n not in O.marks[n].excluded and rnd.random() < 0.4:
            k0 = sorted(attrs)[0]
            cur = O.spec_add((n, orc.canon_json({**attrs, k0: str(attrs[k0]) + "2"})), cur)
    return cur


def rand_text(rnd):
    alphabet = ["a", "b", "c", " ", ASTRAL]
    return "".join(rnd.choice(alphabet) for _ in range(rnd.randint(1, 3)))


def rand_node(S, O, name, rnd, depth=0, marks=(), max_depth=4, width=3):
    nt = O.nodes[name]
    real_marks = [mk_mark(S, m, json.loads(a)) for m, a in marks]
    if nt.is_text:
        return mk_text(S, rand_text(rnd), real_marks)
    attrs = {}
    for k, spec in nt.attrs.items():
        if "default" in spec:
            attrs[k] = spec["default"] if rnd.random() < 0.6 else rnd.choice([2, "alt", 3])
        else:
            attrs[k] = rnd.choice(["x.png", "y.png", ""])
    if nt.is_leaf:
        return mk_node(S, name, [], attrs, real_marks)
    # random walk over the derivative automaton, biased to stop when accepting
    state = nt.dfa.start
    kids = []
    prev_text_marks = None
    for _ in range(40):
        import spec.regex as rx

        options = [a for a in nt.dfa.alphabet if nt.dfa.trans[(state, a)] in nt.dfa.live]
        if depth >= max_depth:
            options = [a for a in options if O.nodes[a].is_leaf or O.nodes[a].is_text or O.nodes[a].inline_content] or options
        stop_ok = rx.nullable(state)
        if stop_ok and (not options or len(kids) >= width or rnd.random() < 0.35):
            break
        if not options:
            break
        a = rnd.choice(options)
        cm = canonical_mark_subsets(O, name, rnd) if O.nodes[a].inline else []
        if a == "text":
            if prev_text_marks is not None and prev_text_marks == cm:
                # keep the normal form: adjacent text nodes must differ in marks
                state2 = state
                continue_ok = False
                for _try in range(4):
                    cm = canonical_mark_subsets(O, name, rnd)
                    if cm != prev_text_marks:
                        continue_ok = True
                        break
                if not continue_ok:
                    others = [o for o in options if o != "text"]
                    if not others:
                        if stop_ok:
                            break
                        continue
                    a = rnd.choice(others)
                    cm = canonical_mark_subsets(O, name, rnd) if O.nodes[a].inline else []
        kids.append(rand_node(S, O, a, rnd, depth + 1, cm, max_depth, width))
        prev_text_marks = cm if a == "text" else None
        state = nt.dfa.trans[(state, a)]
    import spec.regex as rx

    # close the content if the walk stopped early
    guard = 0
    while not rx.nullable(state) and guard < 20:
        guard += 1
        options = sorted((a for a in nt.dfa.alphabet if nt.dfa.trans[(state, a)] in nt.dfa.live), key=lambda a: (not O.nodes[a].is_leaf, a))
        best = None
        for a in options:  # prefer the symbol that gets to acceptance fastest
            if rx.nullable(nt.dfa.trans[(state, a)]):
                best = a
                break
        a = best or options[0]
        if a == "text" and prev_text_marks == []:
            cm = canonical_mark_subsets(O, name, rnd) or []
            if cm == []:
                alts = [o for o in options if o != "text"]
                if alts:
                    a = alts[0]
        else:
            cm = []
        kids.append(rand_node(S, O, a, rnd, depth + 1, cm if O.nodes[a].inline else [], max_depth, width))
        prev_text_marks = cm if a == "text" else None
        state = nt.dfa.trans[(state, a)]
    return mk_node(S, name, kids, attrs, real_marks)


def rand_doc(name, rnd, max_depth=4, width=3, max_size=40):
    S, O = schema(name)
    for _ in range(200):
        d = rand_node(S, O, O.top, rnd, 0, (), max_depth, width)
        if d.content.size <= max_size and O.valid(d) is None and orc.normal_form(d):
            return d
    raise RuntimeError(f"generator cannot produce a valid document for schema {name}")


# ---------------------------------------------------------------- hand-shaped corpus
def _t(x, *m):
    return {"t": "text", "x": x, "m": list(m)}


def _n(t, *c, a=None, m=()):
    return {"t": t, "c": list(c), "a": a, "m": list(m)}


def corpus_json(name):
    p = lambda *c: _n("paragraph", *c)  # noqa: E731
    docs = [
        _n("doc", p(_t("ab"))),
        _n("doc", p()),
        _n("doc", p(_t("a")), p(_t("b"))),
        _n("doc", p(_t("a"), _t("b", "em"), _t("c"))),
        _n("doc", p(_t("a" + ASTRAL + "b"))),
        _n("doc", p(_t("x", "strong"), _n("hard_break"), _t("y", "em", "strong"))),
        _n("doc", _n("heading", _t("h"), a={"level": 2}), p(_t("t"))),
        _n("doc", _n("blockquote", p(_t("q")), p(_t("r"))), p(_t("s"))),
        _n("doc", _n("code_block", _t("co")), p(_t("a"))),
        _n("doc", p(_t("a"), _n("image", a={"src": "i.png"}), _t("b"))),
        _n("doc", _n("horizontal_rule"), p(_t("a"))),
        _n("doc", _n("blockquote", _n("blockquote", p(_t("d")))), p()),
        _n("doc", p(_t("l", ["link", {"href": "foo"}]), _t("m", ["link", {"href": "foo"}], "em"))),
        # the same mark value on two spans separated by unmarked content
        _n("doc", p(_t("foo", ["link", {"href": "foo"}]), _t(" and "), _t("bar", ["link", {"href": "foo"}])), p(_t("t", "em"), _t("u"), _t("v", "em"))),
    ]
    if name in ("list", "iso", "table", "title"):
        li = lambda *c: _n("list_item", *c)  # noqa: E731
        docs += [
            _n("doc", _n("bullet_list", li(p(_t("a"))), li(p(_t("b"))))),
            _n("doc", _n("bullet_list", li(p(_t("a")), _n("bullet_list", li(p(_t("b"))))))),
            _n("doc", _n("ordered_list", li(p(_t("a"))), a={"order": 3}), p(_t("z"))),
            _n("doc", _n("blockquote", _n("bullet_list", li(p(_t("a")), p(_t("b"))))), p(_t("c"))),
            _n("doc", p(_t("x")), _n("bullet_list", li(p(_t("a"))), li(p(_t("b"))), li(p(_t("c"))))),
            _n("doc", _n("bullet_list", li(p(_t("x")), _n("bullet_list", li(p(_t("a"))), li(p(_t("b")))), p(_t("y"))))),
        ]
    if name in ("note", "notehtml"):
        fn = lambda *c, **k: _n("footnote", *c, **k)  # noqa: E731
        docs += [
            # marks that occur only inside / only on / only around an inline node with content
            _n("doc", p(_t("ab"), fn(_t("c"), _t("d" + ASTRAL, "em")), _t("e", "strong"))),
            _n("doc", p(_t("a"), fn(_t("xz"), _t("y", "em")), _t("c")), p(_t("d"))),
            _n("doc", p(fn(), _t("a"), fn(_t("b", "code"))), p(fn(_t("c")))),
        ] + ([_n("doc", p(_t("a", "em"), fn(_t("cd", "em"), m=["em", "strong"]), _t("ef", "em")))] if name == "note" else [])
    if name == "iso":
        docs += [
            _n("doc", p(_t("x")), _n("box", p(_t("ab"))), p(_t("y"))),
            _n("doc", _n("box", p(_t("a")), p(_t("b")))),
            _n("doc", _n("box", _n("box", p(_t("in"))), p(_t("o"))), p(_t("y"))),
            _n("doc", _n("box", _n("bullet_list", _n("list_item", p(_t("a")))))),
        ]
    if name == "table":
        cell = lambda *c: _n("cell", *c)  # noqa: E731
        row = lambda *c: _n("row", *c)  # noqa: E731
        docs += [
            _n("doc", _n("table", row(cell(p(_t("a"))), cell(p(_t("b"))))), p(_t("c"))),
            _n("doc", p(_t("x")), _n("table", row(cell(p(_t("ab")))), row(cell(p(_t("cd")), p(_t("e")))))),
            _n("doc", _n("table", row(cell(_n("table", row(cell(p(_t("in")))))))), p()),
            _n("doc", _n("table", row(cell(_n("bullet_list", _n("list_item", p(_t("a")))))))),
        ]
    if name == "strict":
        docs = [
            _n("doc", _n("heading", _t("h")), _n("body", p(_t("a")))),
            _n("doc", _n("heading"), _n("body", p(_t("a")), p(_t("b")))),
            _n("doc", _n("heading", _t("h")), _n("body", _n("blockquote", p(_t("q"))), p())),
            _n("doc", _n("heading", _t("h")), _n("body", _n("bullet_list", _n("list_item", p(_t("a")))))),
        ]
    if name == "title":
        docs += [
            _n("doc", _n("title", _t("ti")), p(_t("a"))),
            _n("doc", _n("title")),
            _n("doc"),
        ]
    if name == "marksx":
        docs += [
            _n("doc", p(_t("a", "em"), _t("b", "strong"), _t("c", "code"))),
            _n("doc", p(_t("a", "em", "hl"), _t("b", ["hl", {"c": "r"}], ["hl", {"c": "y"}]))),
            _n("doc", _n("heading", _t("h", "em")), p(_t("p", "link"))),
            _n("doc", p(_t("ab", ["link", {"href": "foo"}], "cm"), _t("cd"))),
            _n("doc", p(_t("ab", "sm", "lock"), _t("cd", "sm"), _t("e")), p(_t("f", "lock"))),
            _n("doc", p(_t("x", "cm"), _t("y", "em", "cm"), _t("z", ["link", {"href": "foo"}], "cm"))),
        ]
    return docs


_DOCS: dict = {}


def corpus(name, n_random=30, seed=1, max_depth=4):
    key = (name, n_random, seed, max_depth)
    if key in _DOCS:
        return _DOCS[key]
    S, O = schema(name)
    docs = []
    for js in corpus_json(name):
        d = from_json(S, js)
        why = O.valid(d)
        if why is not None:
            if name == "marksx":
                continue  # generic documents whose mark sets the stricter exclusion rules forbid
            raise RuntimeError(f"corpus document invalid under {name}: {why} {js}")
        docs.append(d)
    rnd = random.Random(seed * 7919 + sum(map(ord, name)))
    for _ in range(n_random):
        docs.append(rand_doc(name, rnd, max_depth=max_depth))
    _DOCS[key] = docs
    return docs


def doc_json(d):
    """canonical JSON of a document built from attribute reads only"""

    def j(n):
        o = {"t": n.type.name}
        if n.attrs:
            o["a"] = n.attrs
        if n.marks:
            o["m"] = [[m.type.name, m.attrs] for m in n.marks]
        if n.type.name == "text":
            o["x"] = n.text
        elif n.content.content:
            o["c"] = [j(k) for k in n.content.content]
        return o

    return j(d)


def frag_json(f):
    return [doc_json(k) for k in f.content]


# ---------------------------------------------------------------- slices
def cut_tokens_slice(doc, f, t):
    """Slice doc[f:t] by the library (used only as *input* data for other operations; its
    own correctness is C02's subject and is checked there against tokens)."""
    return doc.slice(f, t)


def slice_pool(name, docs, rnd, limit=60):
    """slices cut from the corpus documents + plausible-but-wrong ones"""
    from prosemirror.model import Fragment, Slice

    S, O = schema(name)
    seen = {}
    for d in docs:
        size = d.content.size
        pairs = [(a, b) for a in range(size + 1) for b in range(a, size + 1)]
        rnd.shuffle(pairs)
        for a, b in pairs[:12]:
            try:
                s = d.slice(a, b)
            except Exception:  # noqa: BLE001
                continue
            k = json.dumps([frag_json(s.content), s.open_start, s.open_end], sort_keys=True, default=str)
            seen.setdefault(k, s)
    out = list(seen.values())
    rnd.shuffle(out)
    out = out[:limit]
    # wrappers created empty and two-level chains, closed and open
    for tname, nt in O.nodes.items():
        if nt.is_leaf or nt.is_text or nt.has_required_attrs() or tname == O.top:
            continue
        n = mk_node(S, tname, [])
        out.append(Slice(Fragment([n], orc.node_size(n)), 0, 0))
        out.append(Slice(Fragment([n], orc.node_size(n)), 1, 1))
    out.append(Slice(Fragment([mk_text(S, "zz")], 2), 0, 0))
    out.append(Slice.empty)
    return out


def frontier_slices(name, docs, rnd, limit=30):
    """slices that start at the very end (or end at the very start) of a nested node's content and reach into a later
    (earlier) top-level child: the first (last) node of the slice is then a chain of emptied nodes, followed by more
    content - the shape in which the fitter must decide how much required content to fill in behind the open start"""
    S, O = schema(name)

    def nesting(n):
        return 0 if n.is_text or n.is_leaf else 1 + max([nesting(n.child(i)) for i in range(n.child_count)] or [0])

    # two-child documents paired up from the deeply nested top-level children of the corpus: both ends of a slice
    # across the pair can then be open several levels
    tops = {}
    for d in docs:
        for i in range(d.child_count):
            c = d.child(i)
            if nesting(c) >= 2 and orc.node_size(c) <= 16:
                tops.setdefault(str(c), c)
    tops = list(tops.values())
    rnd.shuffle(tops)
    paired = []
    for x in tops[:8]:
        for y in tops[:8]:
            dd = mk_node(S, O.top, [x, y])
            if O.valid(dd) is None and orc.normal_form(dd):
                paired.append(dd)
    rnd.shuffle(paired)
    seen = {}
    for d in paired[:24] + list(docs):
        ends, starts, deep = [], [], []
        for pos in range(d.content.size + 1):
            try:
                rp = d.resolve(pos)
            except Exception:  # noqa: BLE001
                continue
            if rp.depth >= 2 and rp.parent_offset == rp.parent.content.size:
                ends.append((pos, rp.index(0)))
            if rp.depth >= 2 and rp.parent_offset == 0:
                starts.append((pos, rp.index(0)))
            if rp.depth >= 1:
                deep.append((pos, rp.index(0), rp.depth))
        # both ends deep first (the other end open at least two levels as well), then the rest
        both = [(a, b) for a, ia in ends for b, ib, db in deep if ib > ia and db >= 2] + [(a, b) for b, ib in starts for a, ia, da in deep if ia < ib and da >= 2]
        rest = [(a, b) for a, ia in ends for b, ib, db in deep if ib > ia and db < 2] + [(a, b) for b, ib in starts for a, ia, da in deep if ia < ib and da < 2]
        rnd.shuffle(both)
        rnd.shuffle(rest)
        for a, b in both[:8] + rest[:3]:
            try:
                sl = d.slice(a, b)
            except Exception:  # noqa: BLE001
                continue
            k = json.dumps([frag_json(sl.content), sl.open_start, sl.open_end], sort_keys=True, default=str)
            seen.setdefault(k, sl)
    out = list(seen.values())
    rnd.shuffle(out)
    return out[:limit]


def slice_json(s):
    return {"content": frag_json(s.content), "openStart": s.open_start, "openEnd": s.open_end}
