"""C11 bounded stand-in: replace-family operations are total on the bundled schema variants,
stay valid and preserve the content around the range."""
from __future__ import annotations

import random

from spec import oracle as orc

from . import domain as D
from .common import Recorder, Timeout, time_limit

TOTAL_SCHEMAS = ["basic", "list", "strict", "title", "iso", "table"]
OPS = ["replace", "replace_with", "insert", "delete", "replace_range", "replace_range_with", "delete_range"]


class FitterNoProgress(Exception):
    pass


EVENTS: list = []


def install_probe():
    """Ghost event for the call-site keyed known finding: Fitter.fit() keeps calling
    find_fittable while the unplaced slice no longer shrinks (wrappers are re-opened and
    closed again with nothing taken).  The probe aborts such a run instead of waiting for
    the alarm; any other hang still runs into the 2 s alarm and is reported without event."""
    from prosemirror.transform import replace as tr_replace

    F = tr_replace.Fitter
    if getattr(F, "_verif_progress_probe", False):
        return
    orig = F.find_fittable
    state = {}

    def find_fittable(self):
        key = id(self)
        size = (self.unplaced.size, self.unplaced.open_start, self.unplaced.open_end, self.unplaced.content.size)
        last, n = state.get(key, (None, 0))
        n = n + 1 if last == size else 0
        state[key] = (size, n)
        if len(state) > 64:
            for k in list(state)[:32]:
                state.pop(k, None)
        if n > 40:
            EVENTS.append("fitter-no-progress")
            state.pop(key, None)
            raise FitterNoProgress("Fitter.fit: find_fittable called 40 times without the unplaced slice changing")
        return orig(self)

    F.find_fittable = find_fittable
    F._verif_progress_probe = True


def run_op(name, doc, op, f, t, payload):
    from prosemirror.transform import Transform

    tr = Transform(doc)
    if op == "replace":
        tr.replace(f, t, payload)
    elif op == "replace_range":
        tr.replace_range(f, t, payload)
    elif op == "delete":
        tr.delete(f, t)
    elif op == "delete_range":
        tr.delete_range(f, t)
    elif op == "insert":
        tr.insert(f, payload)
    elif op == "replace_with":
        tr.replace_with(f, t, payload)
    elif op == "replace_range_with":
        tr.replace_range_with(f, t, payload)
    return tr


def fillers_ok(O, extra_tokens):
    """tokens that may be invented: empty generatable nodes"""
    return all(t[0] in ("open", "close") or (t[0] == "leaf" and O.nodes[t[1]].generatable()) for t in extra_tokens)


def check_op(rec, name, O, doc, toks, op, f, t, payload, pay_desc, pay_leaves, totality=True):
    call = dict(fn=op, schema=name, doc=D.doc_json(doc), f=f, t=t, payload=pay_desc)
    del EVENTS[:]
    try:
        with time_limit(2):
            tr = run_op(name, doc, op, f, t, payload)
    except Timeout:
        rec.violation("op-hangs", "no return within 2 s (totality)", call)
        return None
    except FitterNoProgress as e:
        rec.violation("op-hangs", f"does not terminate: {e}", call, events=["fitter-no-progress"])
        return None
    except Exception as e:  # noqa: BLE001
        if totality:
            rec.violation("op-raises", f"{type(e).__name__}: {e}", call)
        return None
    new = tr.doc
    if not tr.steps:
        # no fit found: the operation is a documented no-op (replace_step returned None);
        # the document must be the very same one
        rec.count("no-op (no step recorded)")
        if new is not doc:
            rec.violation("noop-changed", "no step recorded but the document changed", call)
        return tr
    why = O.valid(new)
    if why is not None:
        rec.violation("op-invalid", f"document invalid after the operation: {why}", call)
        return tr
    old_leaves = [x for x in toks if x[0] in ("char", "leaf")]
    n_before = sum(1 for x in toks[:f] if x[0] in ("char", "leaf"))
    n_after = sum(1 for x in toks[t:] if x[0] in ("char", "leaf"))
    new_leaves = orc.leafseq(new)
    # range-expanding operations may only expand over structure, never over leaves
    if new_leaves[:n_before] != old_leaves[:n_before]:
        rec.violation("prefix-lost", "text / leaf nodes before the range changed", call)
        return tr
    if n_after and new_leaves[len(new_leaves) - n_after:] != old_leaves[len(old_leaves) - n_after:]:
        rec.violation("suffix-lost", "text / leaf nodes after the range changed", call)
        return tr
    if len(new_leaves) < n_before + n_after:
        rec.violation("suffix-lost", "content around the range lost", call)
        return tr
    middle = new_leaves[n_before: len(new_leaves) - n_after]
    mid_text = [x[1] for x in middle if x[0] == "char"]
    pay_text = [x[1] for x in pay_leaves if x[0] == "char"]
    if not orc.is_subsequence(mid_text, pay_text):
        rec.violation("middle-invented", f"text between the kept parts is not an in-order subsequence of the inserted text", call)
    mid_leaf = [(x[1], x[2]) for x in middle if x[0] == "leaf"]
    pay_leaf = [(x[1], x[2]) for x in pay_leaves if x[0] == "leaf"]
    rest = []
    it = iter(pay_leaf)
    for x in mid_leaf:
        for y in it:
            if x == y:
                break
        else:
            rest.append(x)
    if any(not O.nodes[x[0]].generatable() for x in rest):
        rec.violation("middle-invented", "a leaf node that is neither in the slice nor a generatable filler appeared", call)
    if op in ("delete", "delete_range") and middle:
        rec.violation("delete-adds", "deleting a range left or added content between the kept parts", call)
    return tr


def payloads(name, S, O, pool, rnd):
    from prosemirror.model import Fragment, Slice

    nodes = [D.mk_node(S, "paragraph", [D.mk_text(S, "n")]), D.mk_text(S, "w"), D.mk_node(S, "horizontal_rule"), D.mk_node(S, "hard_break"),
             D.mk_node(S, "image", [], {"src": "p.png"}), D.mk_node(S, "code_block", [D.mk_text(S, "k")])]
    if "bullet_list" in O.nodes:
        nodes.append(D.mk_node(S, "bullet_list", [D.mk_node(S, "list_item", [D.mk_node(S, "paragraph", [D.mk_text(S, "li")])])]))
    nodes = [n for n in nodes if O.valid(n) is None]
    # one or two valid instances of every other node type (list items, cells, rows, ...)
    have = {n.type.name for n in nodes}
    for tname, nt in O.nodes.items():
        if tname in have or nt.is_text or tname == O.top:
            continue
        for _ in range(2):
            try:
                n = D.rand_node(S, O, tname, rnd, depth=2, max_depth=4, width=2)
            except Exception:  # noqa: BLE001
                continue
            if O.valid(n) is None and orc.normal_form(n) and orc.node_size(n) <= 14:
                nodes.append(n)
                break
    return nodes


def run(tier, seed, findings, schemas=None, extra_check=None):
    from . import ops

    install_probe()
    rec = Recorder("C11")
    rnd = random.Random(seed)
    for name in schemas or TOTAL_SCHEMAS:
        S, O = D.schema(name)
        docs = [d for d in D.corpus(name, 8 if tier == "quick" else 40, seed) if d.content.size <= 26]
        # slices of any open depth cut from arbitrary other documents (payload-valid ones)
        pool = [s for s in D.slice_pool(name, D.corpus(name, 20, seed + 1), rnd, 40 if tier == "quick" else 150) if ops.slice_ok(O, s)]
        # ... and slices whose first / last node is a chain of emptied nodes followed by further top-level content
        rnd_f = random.Random(seed * 13 + 5)
        front = [s for s in D.frontier_slices(name, D.corpus(name, 30, seed + 2), rnd_f, 24 if tier == "quick" else 80) if ops.slice_ok(O, s)]
        nodes = payloads(name, S, O, pool, rnd)
        for doc in docs:
            toks = orc.tokens(doc)
            size = doc.content.size
            ranges = [(f, t) for f in range(size + 1) for t in range(f, size + 1)]
            if len(ranges) > (40 if tier == "quick" else 200):
                rnd.shuffle(ranges)
                ranges = ranges[: (40 if tier == "quick" else 200)]
            from .c02 import splits_pair

            for f, t in ranges:
                if splits_pair(toks, f) or splits_pair(toks, t):
                    continue  # a Python str cannot hold half a surrogate pair
                for op in OPS:
                    if op in ("delete", "delete_range"):
                        cases = [(None, "-", [])]
                    elif op in ("replace", "replace_range"):
                        ss = rnd.sample(pool, min(len(pool), 3 if tier == "quick" else 10)) + rnd_f.sample(front, min(len(front), 2 if tier == "quick" else 6))
                        cases = [(s, D.slice_json(s), orc.leafseq_frag(s.content) if hasattr(orc, "leafseq_frag") else [x for x in orc.frag_tokens(s.content) if x[0] in ("char", "leaf")]) for s in ss]
                    else:
                        nn = rnd.sample(nodes, min(len(nodes), 3 if tier == "quick" else 6))
                        cases = [(n, D.doc_json(n), [x for x in orc.tokens(n, top=False) if x[0] in ("char", "leaf")]) for n in nn]
                        if op == "insert" and f != t:
                            continue
                    for payload, desc, leaves in cases:
                        rec.case((op, name, orc.canon_json(D.doc_json(doc)), f, t, orc.canon_json(desc)), sample=dict(schema=name, doc=str(doc), op=op, f=f, t=t, payload=str(payload)))
                        tr = check_op(rec, name, O, doc, toks, op, f, t, payload, desc, leaves)
                        if extra_check and tr is not None:
                            extra_check(rec, name, O, doc, toks, op, f, t, desc, tr)
    return rec.result(
        rule="7 replace-family operations x ranges (all / sampled) x payload-valid slices of any open depth cut from other documents and whole nodes, on corpus + generated documents <= 26 tokens under the bundled schemas and their strict / title / isolating / table-like variants; each under a 2 s alarm; distinct by (op, schema, document JSON, range, payload JSON)",
        bounds=dict(tier=tier, schemas=schemas or TOTAL_SCHEMAS),
    )
