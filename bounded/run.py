"""usage: /venv/bin/python -m bounded.run <driver> <tier> <seed> <outfile>"""
import importlib
import json
import os
import sys

ROOT = os.path.dirname(os.path.dirname(os.path.abspath(__file__)))


def main():
    drv, tier, seed, outfile = sys.argv[1], sys.argv[2], int(sys.argv[3]), sys.argv[4]
    kf = os.path.join(ROOT, "known_findings.json")
    findings = json.load(open(kf)) if os.path.exists(kf) else {"findings": []}
    mod = importlib.import_module("bounded." + drv)
    res = mod.run(tier, seed, findings)
    with open(outfile, "w") as f:
        json.dump(res, f, default=str)


if __name__ == "__main__":
    main()
