"""C01 bounded stand-in: applying any step to a valid document fails cleanly or returns a
valid document (validity judged by the independent oracle, not by Node.check)."""
from __future__ import annotations

import json
import random

from spec import oracle as orc

from . import domain as D
from . import ops
from .common import Recorder, Timeout, time_limit

SCHEMAS = ["basic", "list", "strict", "iso", "table", "marksx"]


def step_desc(step):
    try:
        j = step.to_json()
        if hasattr(step, "slice"):
            j = {**j, "slice_open_depths": [step.slice.open_start, step.slice.open_end]}  # to_json omits depths <= 0
        return j
    except Exception:  # noqa: BLE001
        return repr(step)


def check_apply(rec, name, O, doc, desc, step, via):
    call = dict(fn="apply", schema=name, doc=D.doc_json(doc), step=desc, via=via)
    try:
        with time_limit(3):
            res = step.apply(doc)
    except Timeout:
        rec.violation("apply-hangs", "no return within 3 s", call)
        return None
    except ValueError:
        rec.count("raised ValueError-family")
        return None
    except Exception as e:  # noqa: BLE001
        rec.violation("apply-internal-error", f"{type(e).__name__}: {e}", call)
        return None
    if res.failed is not None:
        if res.doc is not None or not isinstance(res.failed, str):
            rec.violation("apply-result-shape", "failed result carries a document", call)
        rec.count("failed result")
        return None
    if res.doc is None:
        rec.violation("apply-result-shape", "neither failed nor a document", call)
        return None
    why = O.valid(res.doc)
    if why is not None:
        rec.violation("apply-invalid-doc", f"silently invalid document: {why}", call)
        return None
    rec.count("applied")
    return res.doc


def malformed_variants(steps, doc, rnd, n):
    """the generated steps with their position fields permuted / pushed out of range"""
    import copy as _copy

    size = doc.content.size
    out = []
    cands = [s for s in steps if hasattr(s[1], "from_") or hasattr(s[1], "pos")]
    rnd.shuffle(cands)
    for desc, step in cands[:n]:
        st = _copy.copy(step)
        fields = [a for a in ("from_", "to", "gap_from", "gap_to", "pos") if hasattr(st, a)]
        kind = rnd.choice(["swap", "shuffle", "out"])
        vals = [getattr(st, a) for a in fields]
        if kind == "swap" and len(fields) >= 2:
            vals[0], vals[1] = max(vals[0], vals[1]), min(vals[0], vals[1])
            if vals[0] == vals[1]:
                vals[0] = min(size, vals[0] + 1 + rnd.randint(0, 3))
        elif kind == "shuffle":
            rnd.shuffle(vals)
        else:
            i = rnd.randrange(len(vals))
            vals[i] = rnd.choice([-1, size + 1, size + 3])
        for a, v in zip(fields, vals):
            setattr(st, a, v)
        out.append((f"malformed({kind}) {desc}", st))
    # slices a peer may send: open deeper than the content's first / last child spine, or negatively
    from prosemirror.model import Slice

    slc = [s for s in steps if hasattr(s[1], "slice")]
    rnd.shuffle(slc)
    for desc, step in slc[:n]:
        st = _copy.copy(step)
        s0 = st.slice
        st.slice = Slice(s0.content, s0.open_start + rnd.choice([-1, 0, 1, 2, 3]), s0.open_end + rnd.choice([-1, 0, 1, 2, 3]))
        out.append((f"malformed(open depths {st.slice.open_start},{st.slice.open_end}) {desc}", st))
    return out


def run(tier, seed, findings):
    rec = Recorder("C01")
    rnd = random.Random(seed)
    for name in SCHEMAS:
        S, O = D.schema(name)
        docs = [d for d in D.corpus(name, 10 if tier == "quick" else 40, seed) if d.content.size <= 24]
        pool = [s for s in D.slice_pool(name, docs, rnd, 40 if tier == "quick" else 120)]
        for doc in docs:
            steps = ops.primitive_steps(name, doc, pool, rnd, 60 if tier == "quick" else 250)
            # positions a peer may send: out of range or out of order (end before start, gap outside the
            # range).  Such a step must be refused cleanly -- a failed result or a ValueError -- or, if the
            # library accepts it, still yield a valid document; never an internal error.
            for desc, step in malformed_variants(steps, doc, rnd, 25 if tier == "quick" else 120):
                if not ops.step_payload_ok_loose(name, doc, step):
                    continue
                sj = step_desc(step)
                rec.case(("apply-malformed", name, orc.canon_json(D.doc_json(doc)), orc.canon_json(sj)), sample=dict(schema=name, doc=str(doc), step=desc))
                check_apply(rec, name, O, doc, sj, step, "malformed-positions")
            for desc, step in steps:
                if not ops.step_positions_ok(doc, step) or not ops.step_payload_ok(name, doc, step):
                    rec.count("skipped (payload or positions outside the property's quantifier)")
                    continue
                sj = step_desc(step)
                rec.case(("apply", name, orc.canon_json(D.doc_json(doc)), orc.canon_json(sj)), sample=dict(schema=name, doc=str(doc), step=desc))
                r1 = check_apply(rec, name, O, doc, sj, step, "direct")
                try:
                    step2 = ops.step_json_roundtrip(S, step)
                except ValueError:
                    continue
                except Exception as e:  # noqa: BLE001
                    rec.violation("step-json-internal-error", f"{type(e).__name__}: {e}", dict(fn="from_json", schema=name, step=sj))
                    continue
                r2 = check_apply(rec, name, O, doc, sj, step2, "json")
    return rec.result(
        rule="primitive steps of all eight kinds (random ranges x slice pool incl. empty wrappers, marks, attrs; wrap-like replace-around steps) on corpus + generated documents <= 24 tokens under 6 schemas, each also through json.dumps/loads; only steps whose payload is schema-valid by the oracle; distinct by (schema, document JSON, step JSON)",
        bounds=dict(tier=tier, schemas=SCHEMAS),
    )
