"""C02 bounded stand-in: slice / replace against the flat-token oracle."""
from __future__ import annotations

import random

from spec import oracle as orc

from . import domain as D
from .common import Recorder, time_limit, Timeout

SCHEMAS = ["basic", "list", "strict", "table", "marksx", "note"]


def balanced(toks):
    st = []
    for t in toks:
        if t[0] == "open":
            st.append(t[1])
        elif t[0] == "close":
            if not st or st.pop() != t[1]:
                return False
    return not st


def splits_pair(toks, pos):
    """position between the two units of one astral character"""
    if 0 < pos < len(toks):
        a, b = toks[pos - 1], toks[pos]
        return a[0] == "char" and b[0] == "char" and 0xD800 <= a[1] < 0xDC00 and 0xDC00 <= b[1] < 0xE000
    return False


def compatible(O, x, y):
    """node types whose content expressions admit a common first child type (or the same type)"""
    from spec import regex as rx

    if x == y:
        return True
    nx, ny = O.nodes.get(x), O.nodes.get(y)
    if nx is None or ny is None or nx.regex is None or ny.regex is None:
        return False
    return bool(set(rx.first(nx.regex)) & set(rx.first(ny.regex)))


def check_slice(rec, name, doc, toks, f, t):
    call = dict(fn="slice", schema=name, doc=D.doc_json(doc), f=f, t=t)
    try:
        s = doc.slice(f, t)
    except Exception as e:  # noqa: BLE001
        if isinstance(e, ValueError) and (splits_pair(toks, f) or splits_pair(toks, t)):
            return None
        rec.violation("slice-raises", f"{type(e).__name__}: {e}", call)
        return None
    st = orc.frag_tokens(s.content)
    if f == t:
        if s.content.size != 0 or s.open_start or s.open_end:
            rec.violation("slice-empty", "empty range must give the empty slice", call)
        return s
    depths = [orc.depth_at(toks, k) for k in range(f, t + 1)]
    d = min(depths)
    exp_os, exp_oe = depths[0] - d, depths[-1] - d
    if (s.open_start, s.open_end) != (exp_os, exp_oe):
        rec.violation("slice-open-depths", f"open {s.open_start},{s.open_end} expected {exp_os},{exp_oe}", call)
        return s
    inner = st[s.open_start : len(st) - s.open_end]
    if inner != toks[f:t]:
        rec.violation("slice-tokens", "slice does not hold exactly the tokens of the range", call)
    if any(x[0] != "open" for x in st[: s.open_start]) or any(x[0] != "close" for x in st[len(st) - s.open_end :]):
        rec.violation("slice-open-sides", "open sides are not open/close tokens", call)
    if s.size != t - f:
        rec.violation("slice-size", f"size {s.size} != {t - f}", call)
    return s


def check_replace(rec, name, O, doc, toks, f, t, s, same_range=False):
    from prosemirror.model.replace import ReplaceError

    call = dict(fn="replace", schema=name, doc=D.doc_json(doc), f=f, t=t, slice=D.slice_json(s))
    st = orc.frag_tokens(s.content)
    inner = st[s.open_start : len(st) - s.open_end] if s.open_start + s.open_end <= len(st) else None
    try:
        with time_limit(3):
            r = doc.replace(f, t, s)
    except ReplaceError:
        if same_range:
            rec.violation("replace-reinsert", "re-inserting the slice cut from this range raised ReplaceError", call)
        return
    except Timeout:
        rec.violation("replace-hangs", "no return within 3 s", call)
        return
    except Exception as e:  # noqa: BLE001
        if isinstance(e, ValueError) and (splits_pair(toks, f) or splits_pair(toks, t)):
            return
        rec.violation("replace-raises", f"{type(e).__name__}: {e}", call)
        return
    rt = orc.tokens(r)
    if inner is None:
        rec.violation("replace-accepts-bad-slice", "slice with open depths beyond its content accepted", call)
        return
    # a closing token closes whatever is open at that point: when the open side of a slice is
    # joined onto a compatible node the closing token's type is that of the node that was opened
    untyped = lambda ts: [("close",) if x[0] == "close" else x for x in ts]  # noqa: E731
    exp = toks[:f] + inner + toks[t:]
    if untyped(rt) != untyped(exp):
        rec.violation("replace-splice", "result is not old[:from] + slice + old[to:]", call)
        return
    # ... but only onto a *compatible* node: where the result closes a node of another type than the
    # splice says, the two types must be joinable by the schema's definition (same type, or content
    # expressions that can start with a common node type); otherwise replace had to raise
    for a_, b_ in zip(rt, exp):
        if a_[0] == "close" and b_[0] == "close" and a_[1] != b_[1] and not compatible(O, a_[1], b_[1]):
            rec.violation("replace-incompatible-join", f"joined a {b_[1]} onto a {a_[1]} although their content is not compatible (replace must raise)", call)
            return
    why = O.valid(r)
    if why is not None:
        rec.violation("replace-invalid", f"returned an invalid document: {why}", call)
    elif not orc.normal_form(r):
        rec.violation("replace-unmerged-text", "adjacent same-markup text not merged", call)
    if r.content.size != doc.content.size - (t - f) + s.size:
        rec.violation("replace-size", "size did not change by slice size minus range size", call)
    if same_range and not r.eq(doc):
        rec.violation("replace-reinsert", "re-inserting the cut slice does not give an equal document", call)


def run(tier, seed, findings):
    rec = Recorder("C02")
    rnd = random.Random(seed)
    n_docs = 14 if tier == "quick" else 40
    for name in SCHEMAS:
        S, O = D.schema(name)
        docs = D.corpus(name, 12 if tier == "quick" else 40, seed)
        from . import ops as _ops

        # slices "from the same or another document": their nodes off the open sides are schema-valid
        # (the pool also holds deliberately wrong wrappers for C01 / C11; a closed slice carrying an
        # invalid node is outside this property's quantifier: replace validates the nodes it rebuilds,
        # not the ones it is handed)
        pool = [s_ for s_ in D.slice_pool(name, docs, rnd, 25 if tier == "quick" else 80) if _ops.slice_ok(O, s_)]
        sel = docs[:]
        rnd.shuffle(sel)
        for doc in sel[:n_docs]:
            toks = orc.tokens(doc)
            size = doc.content.size
            if size > 26:
                continue
            for f in range(size + 1):
                for t in range(f, size + 1):
                    rec.case(("slice", name, orc.canon_json(D.doc_json(doc)), f, t), nontrivial=t > f, sample=dict(schema=name, doc=str(doc), f=f, t=t))
                    s = check_slice(rec, name, doc, toks, f, t)
                    if s is not None and not (splits_pair(toks, f) or splits_pair(toks, t)):
                        check_replace(rec, name, O, doc, toks, f, t, s, same_range=True)
                        if t > f:
                            from prosemirror.model import Slice as _Slice

                            check_replace(rec, name, O, doc, toks, f, t, _Slice.empty)  # plain deletion of every range
                    # foreign slices on a sample of ranges
                    if (f * 31 + t * 17 + seed) % (7 if tier == "quick" else 3) == 0:
                        for s2 in pool[:: (4 if tier == "quick" else 1)]:
                            rec.evaluations += 1
                            check_replace(rec, name, O, doc, toks, f, t, s2)
    return rec.result(
        rule="every range from <= to of corpus + generated documents (<= 26 tokens) under 5 schemas: slice vs tokens; re-insert; foreign slices from the pool on a sample of ranges; non-trivial = non-empty range; distinct by (schema, document JSON, from, to)",
        bounds=dict(tier=tier, schemas=SCHEMAS),
    )
