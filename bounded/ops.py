"""Generators of steps and high-level transform operations for the bounded drivers."""
from __future__ import annotations

import json
import random

from spec import oracle as orc

from . import domain as D


def slice_ok(O, s, insert=None, gap_empty=False):
    """Payload validity of a slice: well-formed, and every node that is neither on an open
    spine nor on the path to the gap-insertion point is itself valid."""
    from prosemirror.model import Fragment

    kids = s.content.content
    toks = orc.frag_tokens(s.content)
    if s.open_start + s.open_end > len(toks):
        return False
    if any(t[0] != "open" for t in toks[: s.open_start]) or any(t[0] != "close" for t in toks[len(toks) - s.open_end:]):
        return False

    def walk(frag_kids, parent_name, open_l, open_r, ins, base):
        # ins: absolute position (in slice content coordinates) where gap content lands, or None
        pos = base
        n = len(frag_kids)
        for i, k in enumerate(frag_kids):
            size = orc.node_size(k)
            ol = open_l - 1 if (i == 0 and open_l > 0) else -1
            orr = open_r - 1 if (i == n - 1 and open_r > 0) else -1
            on_ins = ins is not None and pos < ins < pos + size
            nt = O.nodes.get(k.type.name)
            if nt is None:
                return False
            if parent_name is not None:
                for m in k.marks:
                    if m.type.name not in O.marks or not O.allows(parent_name, m.type.name):
                        return False
            if set((k.attrs or {}).keys()) != set(nt.attrs.keys()):
                return False
            if not O.canon_marks(k.marks) or not O.rebuild_ok(k.marks):
                return False
            if ol >= 0 or orr >= 0 or on_ins:
                if nt.is_text or nt.is_leaf:
                    return False
                sub = k.content.content
                if on_ins and ol < 0 and orr < 0:
                    # a closed node on the way to the landing point: unless it is the landing
                    # node itself (which the gap content completes) its own child sequence and
                    # child marks must already be right
                    p2 = pos + 1
                    landing = True
                    for c in sub:
                        if p2 < ins < p2 + orc.node_size(c) and c.type.name != "text":
                            landing = False
                        p2 += orc.node_size(c)
                    if not landing or gap_empty:
                        if not nt.dfa.accepts([c.type.name for c in sub]):
                            return False
                if not walk(sub, k.type.name, max(ol, 0), max(orr, 0), ins if on_ins else None, pos + 1):
                    return False
            else:
                if O.valid(k) is not None:
                    return False
            pos += size
        return True

    return walk(kids, None, s.open_start, s.open_end, None if insert is None else insert + s.open_start, 0)


def marks_pool(S, O):
    out = []
    for name, mt in O.marks.items():
        if mt.attrs:
            out.append(D.mk_mark(S, name, {k: "foo" for k in mt.attrs}))
            out.append(D.mk_mark(S, name, {k: "bar" for k in mt.attrs}))
        else:
            out.append(D.mk_mark(S, name))
    return out


def step_json_roundtrip(S, step):
    from prosemirror.transform import Step

    return Step.from_json(S, json.loads(json.dumps(step.to_json())))


def primitive_steps(name, doc, pool, rnd, n=120):
    """-> list of (description, step)"""
    from prosemirror.model import Fragment, Slice
    from prosemirror.transform import (
        AddMarkStep,
        AddNodeMarkStep,
        AttrStep,
        RemoveMarkStep,
        RemoveNodeMarkStep,
        ReplaceAroundStep,
        ReplaceStep,
    )
    from prosemirror.transform.doc_attr_step import DocAttrStep

    S, O = D.schema(name)
    size = doc.content.size
    marks = marks_pool(S, O)
    out = []
    P = lambda: rnd.randint(0, size)  # noqa: E731
    for _ in range(n):
        k = rnd.random()
        f, t = sorted((P(), P()))
        if k < 0.3:
            s = rnd.choice(pool)
            out.append((f"ReplaceStep({f},{t},{s})", ReplaceStep(f, t, s, rnd.random() < 0.15)))
        elif k < 0.5:
            gf, gt = sorted((rnd.randint(f, t), rnd.randint(f, t)))
            s = rnd.choice(pool)
            ins = rnd.randint(0, max(0, s.size))
            out.append((f"ReplaceAroundStep({f},{t},{gf},{gt},{s},{ins})", ReplaceAroundStep(f, t, gf, gt, s, ins, rnd.random() < 0.5)))
        elif k < 0.65:
            m = rnd.choice(marks)
            out.append((f"AddMarkStep({f},{t},{m.type.name})", AddMarkStep(f, t, m)))
        elif k < 0.75:
            m = rnd.choice(marks)
            out.append((f"RemoveMarkStep({f},{t},{m.type.name})", RemoveMarkStep(f, t, m)))
        elif k < 0.82:
            m = rnd.choice(marks)
            out.append((f"AddNodeMarkStep({f},{m.type.name})", AddNodeMarkStep(f, m)))
        elif k < 0.88:
            m = rnd.choice(marks)
            out.append((f"RemoveNodeMarkStep({f},{m.type.name})", RemoveNodeMarkStep(f, m)))
        elif k < 0.96:
            n_ = None
            try:
                n_ = doc.node_at(f)
            except Exception:  # noqa: BLE001
                pass
            attr = rnd.choice(list(n_.attrs) or ["level"]) if n_ is not None and n_.attrs else rnd.choice(["level", "order", "src"])
            val = rnd.choice([1, 2, "v", None])
            out.append((f"AttrStep({f},{attr},{val!r})", AttrStep(f, attr, val)))
        else:
            attr = rnd.choice(list(doc.attrs) or ["meta"])
            out.append((f"DocAttrStep({attr})", DocAttrStep(attr, rnd.choice([1, "x", None]))))
    # "typing": a closed slice holding one (marked) text node put strictly inside, at the start and at the end of
    # text nodes - the flat branch of replace_outer, where only close() stands between a mark the parent forbids
    # (code_block, a heading with a restricted mark set) and the document
    texts = []
    doc.descendants(lambda node, pos, *_: (texts.append((pos, node.node_size)) if node.is_text else None) or True)
    rnd.shuffle(texts)
    for pos, sz in texts[:4]:
        for m in [None] + rnd.sample(marks, min(3, len(marks))):
            sl = Slice(Fragment([D.mk_text(S, "X", [m] if m is not None else [])], 1), 0, 0)
            offs = {pos, pos + sz} | ({pos + 1, pos + sz - 1} if sz >= 2 else set())
            for a in sorted(offs):
                out.append((f"typing ReplaceStep({a},{a},<{'' if m is None else m.type.name}:X>)", ReplaceStep(a, a, sl)))
            if sz >= 3:
                out.append((f"typing-over ReplaceStep({pos + 1},{pos + sz - 1},<{'' if m is None else m.type.name}:X>)", ReplaceStep(pos + 1, pos + sz - 1, sl)))
    # structured replace-around steps: wrappers around every top-level-ish block range
    for tname, nt in O.nodes.items():
        if nt.is_leaf or nt.is_text or nt.has_required_attrs() or tname == O.top:
            continue
        w = D.mk_node(S, tname, [])
        for _ in range(3):
            f, t = sorted((P(), P()))
            out.append((f"wrap-like ReplaceAroundStep({f},{t},{f},{t},<{tname}>,1)", ReplaceAroundStep(f, t, f, t, Slice(Fragment([w], 2), 0, 0), 1, True)))
    # nested wrappers, open or closed on either side, gap landing at depth 1 or 2 of the slice: the
    # shapes in which insert_into must decide at which level the landing node is checked
    ranges = []

    def visit(node, pos, *_):
        if not node.is_text:
            ranges.append((pos, pos + node.node_size, pos, pos + node.node_size))
            if not node.is_leaf:
                ranges.append((pos, pos + node.node_size, pos + 1, pos + node.node_size - 1))
        return True

    doc.descendants(visit)
    rnd.shuffle(ranges)
    nonleaf = [t for t, nt in O.nodes.items() if not (nt.is_leaf or nt.is_text or nt.has_required_attrs() or t == O.top)]
    pairs = [(a, b) for a in nonleaf for b in nonleaf]
    rnd.shuffle(pairs)
    for a, b in pairs[:10]:
        inner = D.mk_node(S, b, [])
        outer = D.mk_node(S, a, [inner])
        frag = Fragment([outer], 4)
        for (f, t, gf, gt) in ranges[:4]:
            for os_, oe_ in ((0, 0), (1, 1), (1, 0), (0, 1)):
                for ins in (1, 2):
                    if ins > 4 - os_ - oe_:
                        continue
                    out.append((f"nested ReplaceAroundStep({f},{t},{gf},{gt},<{a}({b})>({os_},{oe_}),{ins - os_})",
                                ReplaceAroundStep(f, t, gf, gt, Slice(frag, os_, oe_), ins - os_, True)))
        # two such nodes side by side, open two levels on one side: the gap lands deep inside the node
        # on the *closed* side, whose inner node must still be checked
        frag2 = Fragment([outer, D.mk_node(S, a, [D.mk_node(S, b, [])])], 8)
        for (f, t, gf, gt) in ranges[:3]:
            for os_, oe_, off in ((2, 0, 6), (0, 2, 2), (2, 2, 6), (2, 2, 2), (1, 0, 6), (0, 1, 2)):
                if off - os_ < 0:
                    continue
                for struct in (True, False):
                    out.append((f"two-node ReplaceAroundStep({f},{t},{gf},{gt},<{a}({b}),{a}({b})>({os_},{oe_}),{off - os_})",
                                ReplaceAroundStep(f, t, gf, gt, Slice(frag2, os_, oe_), off - os_, struct)))
    # the same shape aimed at the document: X = a(.. b(..)) followed by a sibling Y; continue X's open
    # a > b at the end of b, add a second a(b()) and drop Y (the gap) deep inside that second node
    def visit2(node, pos, parent, index):
        if node.is_text or node.is_leaf or parent is None:
            return True
        last = node.last_child
        if last is None or last.is_text or last.is_leaf or index + 1 >= parent.child_count:
            return True
        y = parent.child(index + 1)
        a_t, b_t = node.type.name, last.type.name
        if O.nodes[a_t].has_required_attrs() or O.nodes[b_t].has_required_attrs():
            return True
        end_b = pos + node.node_size - 2  # end of b's content
        gf = pos + node.node_size
        gt = gf + y.node_size
        mk = lambda: D.mk_node(S, a_t, [D.mk_node(S, b_t, [])])  # noqa: E731
        fr = Fragment([mk(), mk()], 8)
        for struct in (False, True):
            out.append((f"continue-and-drop ReplaceAroundStep({end_b},{gt},{gf},{gt},<{a_t}({b_t}),{a_t}({b_t})>(2,0),4)",
                        ReplaceAroundStep(end_b, gt, gf, gt, Slice(fr, 2, 0), 4, struct)))
        return True

    doc.descendants(visit2)
    return out


def step_payload_ok(name, doc, step):
    from prosemirror.transform import ReplaceAroundStep, ReplaceStep

    S, O = D.schema(name)
    if isinstance(step, ReplaceStep):
        return slice_ok(O, step.slice)
    if isinstance(step, ReplaceAroundStep):
        if not (0 <= step.insert <= step.slice.size):
            return False
        return slice_ok(O, step.slice, step.insert, gap_empty=step.gap_from == step.gap_to)
    return True


def step_payload_ok_loose(name, doc, step):
    """payload validity for steps whose positions may be malformed: the slice / mark / attribute payload
    is still required to be schema-valid (the property quantifies over well-formed payloads)"""
    from prosemirror.transform import ReplaceAroundStep, ReplaceStep

    S, O = D.schema(name)
    if isinstance(step, (ReplaceStep, ReplaceAroundStep)):
        # the nodes of the slice must be schema nodes with allowed marks; its open depths may be anything
        from prosemirror.model import Slice as _S

        try:
            return slice_ok(O, _S(step.slice.content, 0, 0)) or slice_ok(O, step.slice)
        except Exception:  # noqa: BLE001
            return False
    return True


def step_positions_ok(doc, step):
    size = doc.content.size
    for a in ("from_", "to", "gap_from", "gap_to", "pos"):
        if hasattr(step, a):
            v = getattr(step, a)
            if not (0 <= v <= size):
                return False
    if hasattr(step, "from_") and step.from_ > step.to:
        return False
    if hasattr(step, "gap_from") and not (step.from_ <= step.gap_from <= step.gap_to <= step.to):
        return False
    return True


def highlevel_ops(name, doc, pool, rnd, n=60):
    """-> list of (description, function(Transform) -> None)"""
    from prosemirror.model import Fragment, Slice
    from prosemirror.transform import structure

    S, O = D.schema(name)
    size = doc.content.size
    marks = marks_pool(S, O)
    out = []
    P = lambda: rnd.randint(0, size)  # noqa: E731
    kinds = ["replace", "replace_with", "insert", "delete", "replace_range", "replace_range_with", "delete_range",
             "add_mark", "remove_mark", "split", "join", "lift", "wrap", "set_block_type", "set_node_markup",
             "set_node_attribute", "add_node_mark", "remove_node_mark"]
    for _ in range(n):
        k = rnd.choice(kinds)
        f, t = sorted((P(), P()))
        s = rnd.choice(pool)
        if k == "replace":
            out.append((f"replace({f},{t},{s})", "replace", (f, t, s)))
        elif k == "replace_with":
            node = rnd.choice([D.mk_node(S, "paragraph", [D.mk_text(S, "n")]), D.mk_text(S, "w"), D.mk_node(S, "horizontal_rule")])
            out.append((f"replace_with({f},{t},{node})", "replace_with", (f, t, node)))
        elif k == "insert":
            node = rnd.choice([D.mk_node(S, "paragraph", [D.mk_text(S, "n")]), D.mk_text(S, "i"), D.mk_node(S, "hard_break")])
            out.append((f"insert({f},{node})", "insert", (f, node)))
        elif k == "delete":
            out.append((f"delete({f},{t})", "delete", (f, t)))
        elif k == "replace_range":
            out.append((f"replace_range({f},{t},{s})", "replace_range", (f, t, s)))
        elif k == "replace_range_with":
            node = rnd.choice([D.mk_node(S, "paragraph", [D.mk_text(S, "n")]), D.mk_node(S, "horizontal_rule"), D.mk_node(S, "hard_break")])
            out.append((f"replace_range_with({f},{t},{node})", "replace_range_with", (f, t, node)))
        elif k == "delete_range":
            out.append((f"delete_range({f},{t})", "delete_range", (f, t)))
        elif k == "add_mark":
            m = rnd.choice(marks)
            out.append((f"add_mark({f},{t},{m.type.name})", "add_mark", (f, t, m)))
        elif k == "remove_mark":
            m = rnd.choice(marks + [None] + [mm.type for mm in marks[:2]])
            out.append((f"remove_mark({f},{t},{getattr(m, 'name', None) or (m.type.name if m else None)})", "remove_mark", (f, t, m)))
        else:
            out.append((f"{k}@{f},{t}", k, (f, t)))
    return out


def apply_op(tr, kind, args, name):
    """Perform a high-level operation the way a caller would (asking the helper first for
    the structure operations).  Returns False when the operation is not applicable."""
    from prosemirror.transform import structure
    from prosemirror.transform.structure import NodeTypeWithAttrs

    S, O = D.schema(name)
    doc = tr.doc
    size = doc.content.size
    if kind in ("replace", "replace_range"):
        f, t, s = args
        if t > size:
            return False
        getattr(tr, kind)(f, t, s)
    elif kind in ("replace_with", "replace_range_with"):
        f, t, node = args
        if t > size:
            return False
        getattr(tr, kind)(f, t, node)
    elif kind == "insert":
        f, node = args
        if f > size:
            return False
        tr.insert(f, node)
    elif kind in ("delete", "delete_range"):
        f, t = args
        if t > size:
            return False
        getattr(tr, kind)(f, t)
    elif kind in ("add_mark", "remove_mark"):
        f, t, m = args
        if t > size:
            return False
        getattr(tr, kind)(f, t, m)
    else:
        f, t = args
        if t > size:
            return False
        if kind == "split":
            depth = 1 + (f + t) % 2
            if not structure.can_split(doc, f, depth):
                return False
            tr.split(f, depth)
        elif kind == "join":
            if not structure.can_join(doc, f):
                return False
            tr.join(f)
        elif kind == "lift":
            r = doc.resolve(f).block_range(doc.resolve(t))
            if r is None:
                return False
            target = structure.lift_target(r)
            if target is None:
                return False
            tr.lift(r, target)
        elif kind == "wrap":
            r = doc.resolve(f).block_range(doc.resolve(t))
            if r is None:
                return False
            names = [n for n, nt in O.nodes.items() if not nt.is_leaf and not nt.is_text and not nt.inline_content and n != O.top]
            tn = names[(f * 7 + t) % len(names)]
            w = structure.find_wrapping(r, S.nodes[tn])
            if w is None:
                return False
            tr.wrap(r, w)
        elif kind == "set_block_type":
            names = [n for n, nt in O.nodes.items() if nt.inline_content and not nt.inline]
            tn = names[(f + t) % len(names)]
            tr.set_block_type(f, t, S.nodes[tn], None)
        elif kind == "set_node_markup":
            n = doc.node_at(f)
            if n is None or n.is_text:
                return False
            attrs = dict(n.attrs)
            for k in attrs:
                attrs[k] = 2 if k in ("level", "order") else attrs[k]
            tr.set_node_markup(f, None, attrs)
        elif kind == "set_node_attribute":
            n = doc.node_at(f)
            if n is None or not n.attrs:
                return False
            k = sorted(n.attrs)[0]
            tr.set_node_attribute(f, k, 3 if k in ("level", "order") else "q.png")
        elif kind in ("add_node_mark", "remove_node_mark"):
            n = doc.node_at(f)
            if n is None:
                return False
            par = doc.resolve(f).parent
            ms = [m for m in marks_pool(S, O) if O.allows(par.type.name, m.type.name)]
            if not ms:
                return False
            m = ms[(f + t) % len(ms)]
            getattr(tr, kind)(f, m)
    return True
