"""C09 bounded stand-in: resolved positions and traversal against the oracle tree."""
from __future__ import annotations

import random

from spec import oracle as orc

from . import domain as D
from .common import Recorder

SCHEMAS = ["basic", "list", "table", "marksx", "note"]


def expected_marks(O, path, toff):
    par, idx, off = path[-1]
    if not par.kids:
        return []
    if toff:
        return list(par.kids[idx].marks)
    before = par.kids[idx - 1] if idx - 1 >= 0 else None
    after = par.kids[idx] if idx < len(par.kids) else None
    main, other = (before, after) if before is not None else (after, before)
    if main is None:
        return []
    marks = list(main.marks)
    out = []
    for m in marks:
        inclusive = O.marks[m[0]].spec.get("inclusive")
        if inclusive is False and (other is None or m not in other.marks):
            continue
        out.append(m)
    return out


def check_pos(rec, name, O, doc, root, toks, pos):
    call = dict(fn="resolve", schema=name, doc=D.doc_json(doc), pos=pos)
    try:
        rp = doc.resolve(pos)
    except Exception as e:  # noqa: BLE001
        rec.violation("resolve-raises", f"{type(e).__name__}: {e}", call)
        return
    path, toff = orc.resolve_o(root, pos)
    depth = len(path) - 1
    if rp.depth != depth:
        rec.violation("depth", f"depth {rp.depth} expected {depth}", call)
        return
    try:
        if rp.parent_offset != pos - path[-1][0].content_start:
            rec.violation("parent-offset", f"{rp.parent_offset}", call)
        if rp.text_offset != toff:
            rec.violation("text-offset", f"{rp.text_offset} expected {toff}", call)
        for d, (n, idx, off) in enumerate(path):
            if rp.node(d) is not n.node:
                rec.violation("node", f"ancestor at depth {d}", call)
            if rp.index(d) != idx:
                rec.violation("index", f"index({d})={rp.index(d)} expected {idx}", call)
            ia = idx + (0 if (d == depth and not toff) else 1)
            if rp.index_after(d) != ia:
                rec.violation("index-after", f"index_after({d})={rp.index_after(d)} expected {ia}", call)
            if rp.start(d) != n.content_start or rp.end(d) != n.content_end:
                rec.violation("start-end", f"start/end({d})={rp.start(d)},{rp.end(d)} expected {n.content_start},{n.content_end}", call)
            if d > 0:
                if rp.before(d) != n.pos or rp.after(d) != n.pos + n.size:
                    rec.violation("before-after", f"before/after({d})={rp.before(d)},{rp.after(d)} expected {n.pos},{n.pos + n.size}", call)
            for i in range(len(n.kids) + 1):
                e = n.content_start + sum(k.size for k in n.kids[:i])
                if rp.pos_at_index(i, d) != e:
                    rec.violation("pos-at-index", f"pos_at_index({i},{d})={rp.pos_at_index(i, d)} expected {e}", call)
        par, idx, off = path[-1]
        # node_after / node_before as token sequences
        na, nb = rp.node_after, rp.node_before
        exp_after = None
        if idx < len(par.kids):
            k = par.kids[idx]
            exp_after = toks[pos : k.pos + k.size] if True else None
        got_after = orc.tokens(na, top=False) if na is not None else None
        if (got_after or None) != (exp_after or None):
            rec.violation("node-after", "node_after does not start the tokens after the position", call)
        if toff:
            k = par.kids[idx]
            exp_before = toks[k.pos : pos]
        elif idx > 0:
            k = par.kids[idx - 1]
            exp_before = toks[k.pos : k.pos + k.size]
        else:
            exp_before = None
        got_before = orc.tokens(nb, top=False) if nb is not None else None
        if (got_before or None) != (exp_before or None):
            rec.violation("node-before", "node_before does not end with the tokens before the position", call)
        em = expected_marks(O, path, toff)
        gm = [orc.mark_key(m) for m in rp.marks()]
        if gm != em:
            rec.violation("marks", f"marks() gives {gm}, expected {em}", call)
    except Exception as e:  # noqa: BLE001
        from .c02 import splits_pair

        if not (isinstance(e, ValueError) and splits_pair(toks, pos)):
            rec.violation("accessor-raises", f"{type(e).__name__}: {e}", call)
    # node_at, child_after, child_before on the document
    try:
        n = doc.node_at(pos)
        exp = None
        cur = root
        p = pos
        # node starting exactly at pos (deepest first match going down) or the text containing it
        def find(nn):
            for k in nn.kids:
                if k.pos == pos:
                    return k
                if k.pos < pos < k.pos + k.size:
                    if k.text is not None:
                        return k
                    return find(k)
            return None
        e = find(root)
        if (n is None) != (e is None) or (n is not None and n is not e.node):
            rec.violation("node-at", f"node_at gives {n}, expected {e.node if e else None}", call)
    except Exception as e:  # noqa: BLE001
        rec.violation("node-at-raises", f"{type(e).__name__}: {e}", call)


def nodes_between_oracle(root, f, t):
    out = []

    def walk(n):
        for i, k in enumerate(n.kids):
            if k.pos + k.size > f and k.pos < t:
                out.append((k.node, k.pos, n.node, i))
                if k.kids:
                    walk(k)

    walk(root)
    return out


def check_range(rec, name, O, doc, root, toks, f, t):
    call = dict(fn="range", schema=name, doc=D.doc_json(doc), f=f, t=t)
    try:
        got = []
        doc.nodes_between(f, t, lambda n, p, par, i: got.append((n, p, par, i)) or None)
        exp = nodes_between_oracle(root, f, t)
        if len(got) != len(exp) or any(a[0] is not b[0] or a[1] != b[1] or a[2] is not b[2] or a[3] != b[3] for a, b in zip(got, exp)):
            rec.violation("nodes-between", f"callback trace differs ({len(got)} vs {len(exp)} calls)", call)
        # text_between counts UTF-16 units
        units = [x[1] for x in toks[f:t] if x[0] == "char"]
        exp_text = b"".join(u.to_bytes(2, "little") for u in units).decode("utf-16-le", errors="surrogatepass")
        from .c02 import splits_pair

        try:
            if splits_pair(toks, f) or splits_pair(toks, t):
                raise ValueError("skip")
            tb = doc.text_between(f, t)
            if tb.encode("utf-16-le", errors="surrogatepass") != exp_text.encode("utf-16-le", errors="surrogatepass"):
                rec.violation("text-between", f"text_between gives {tb!r}, the tokens in range spell {exp_text!r}", call)
        except Exception as e:  # noqa: BLE001
            if not (isinstance(e, ValueError) and (splits_pair(toks, f) or splits_pair(toks, t))):
                rec.violation("text-between-raises", f"{type(e).__name__}: {e}", call)
        for mname in O.marks:
            S = doc.type.schema
            exp_has = any(any(m[0] == mname for m in k[0].marks) for k in []) if False else None
            got_has = doc.range_has_mark(f, t, S.marks[mname])
            e_has = t > f and any(any(mm.type.name == mname for mm in n.marks) for (n, p, par, i) in exp)
            if bool(got_has) != bool(e_has):
                rec.violation("range-has-mark", f"{mname}: {got_has} expected {e_has}", call)
        # shared depth / block range arithmetic
        rf = doc.resolve(f)
        pf, _ = orc.resolve_o(root, f)
        sd = 0
        for d in range(len(pf) - 1, 0, -1):
            n = pf[d][0]
            if n.content_start <= t <= n.content_end:
                sd = d
                break
        if rf.shared_depth(t) != sd:
            rec.violation("shared-depth", f"{rf.shared_depth(t)} expected {sd}", call)
    except Exception as e:  # noqa: BLE001
        rec.violation("range-raises", f"{type(e).__name__}: {e}", call)


def run(tier, seed, findings):
    rec = Recorder("C09")
    rnd = random.Random(seed)
    for name in SCHEMAS:
        S, O = D.schema(name)
        docs = D.corpus(name, 12 if tier == "quick" else 60, seed)
        for doc in docs:
            size = doc.content.size
            if size > (30 if tier == "quick" else 45):
                continue
            root = orc.otree(doc)
            toks = orc.tokens(doc)
            # whole-document text
            try:
                units = [x[1] for x in toks if x[0] == "char"]
                if doc.text_content.encode("utf-16-le") != b"".join(u.to_bytes(2, "little") for u in units):
                    rec.violation("text-content", "text_content differs from the characters of the tokens", dict(fn="text_content", schema=name, doc=D.doc_json(doc)))
            except Exception as e:  # noqa: BLE001
                rec.violation("text-content-raises", f"{type(e).__name__}: {e}", dict(fn="text_content", schema=name, doc=D.doc_json(doc)))
            for pos in range(size + 1):
                rec.case(("pos", name, orc.canon_json(D.doc_json(doc)), pos), sample=dict(schema=name, doc=str(doc), pos=pos))
                check_pos(rec, name, O, doc, root, toks, pos)
            pairs = [(f, t) for f in range(size + 1) for t in range(f, size + 1)]
            if tier == "quick" and len(pairs) > 120:
                rnd.shuffle(pairs)
                pairs = pairs[:120]
            for f, t in pairs:
                rec.case(("range", name, orc.canon_json(D.doc_json(doc)), f, t), nontrivial=t > f)
                check_range(rec, name, O, doc, root, toks, f, t)
    return rec.result(
        rule="every position (resolve + accessors, node_at, marks) and position pair (nodes_between trace, text_between in UTF-16 units, range_has_mark, shared_depth) of corpus + generated documents incl. astral text and non-inclusive marks; distinct by (schema, document JSON, position[s])",
        bounds=dict(tier=tier, schemas=SCHEMAS),
    )
