"""C20 bounded stand-in: find_diff_start / find_diff_end against token prefixes / suffixes."""
from __future__ import annotations

import random

from spec import oracle as orc

from . import domain as D
from .common import Recorder, Timeout, time_limit

SCHEMAS = ["basic", "list", "marksx", "note"]


def lcp(a, b):
    n = 0
    while n < len(a) and n < len(b) and a[n] == b[n]:
        n += 1
    return n


def check_pair(rec, name, a, b, how):
    call = dict(fn="diff", schema=name, a=D.doc_json(a), b=D.doc_json(b), how=how)
    rec.case(("diff", name, orc.canon_json(D.doc_json(a)), orc.canon_json(D.doc_json(b))), nontrivial=True, sample=dict(schema=name, a=str(a), b=str(b), how=how))
    ta, tb = orc.tokens_m(a), orc.tokens_m(b)
    exp_start = None if ta == tb else lcp(ta, tb)
    try:
        with time_limit(2):
            got = a.content.find_diff_start(b.content)
        if got != exp_start:
            rec.violation("diff-start", f"find_diff_start gives {got}, the token sequences agree up to {exp_start}", call)
    except Timeout:
        rec.violation("diff-start-hangs", "no return within 2 s", call)
    except Exception as e:  # noqa: BLE001
        rec.violation("diff-start-raises", f"{type(e).__name__}: {e}", call)
    if ta == tb:
        exp_end = None
    else:
        n = lcp(ta[::-1], tb[::-1])
        exp_end = {"a": len(ta) - n, "b": len(tb) - n}
    try:
        with time_limit(2):
            got = a.content.find_diff_end(b.content)
        if got != exp_end:
            rec.violation("diff-end", f"find_diff_end gives {got}, expected {exp_end}", call)
    except Timeout:
        rec.violation("diff-end-hangs", "no return within 2 s", call)
    except Exception as e:  # noqa: BLE001
        rec.violation("diff-end-raises", f"{type(e).__name__}: {e}", call)


def run(tier, seed, findings):
    rec = Recorder("C20")
    rnd = random.Random(seed)
    for name in SCHEMAS:
        S, O = D.schema(name)
        docs = D.corpus(name, 10 if tier == "quick" else 50, seed)
        pool = D.slice_pool(name, docs, rnd, 20)
        # independently built equal copies
        for js in D.corpus_json(name):
            try:
                a, b = D.from_json(S, js), D.from_json(S, js)
            except Exception:  # noqa: BLE001
                continue
            if O.valid(a) is None:
                check_pair(rec, name, a, b, "independent equal copies")
        # (document, edited document): shares sub-trees by identity
        for doc in docs:
            size = doc.content.size
            if size > 30:
                continue
            check_pair(rec, name, doc, doc, "same object")
            ranges = [(f, t) for f in range(size + 1) for t in range(f, size + 1)]
            rnd.shuffle(ranges)
            for f, t in ranges[: (12 if tier == "quick" else 60)]:
                for s in rnd.sample(pool, min(len(pool), 3 if tier == "quick" else 8)):
                    try:
                        edited = doc.replace(f, t, s)
                    except Exception:  # noqa: BLE001
                        continue
                    check_pair(rec, name, doc, edited, f"replace({f},{t})")
                    check_pair(rec, name, edited, doc, f"replace({f},{t}) reversed")
        # pairs of different documents
        for _ in range(30 if tier == "quick" else 300):
            a, b = rnd.choice(docs), rnd.choice(docs)
            check_pair(rec, name, a, b, "two corpus documents")
    return rec.result(
        rule="pairs: independently built equal copies, (document, document after a replace) sharing sub-trees, same object, random corpus pairs; incl. astral text; distinct by the two document JSONs",
        bounds=dict(tier=tier, schemas=SCHEMAS),
    )
