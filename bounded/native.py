"""Native evaluation of *every* sidecar contract of a property (proved and trusted ones alike)
while a workload runs: the repository's own test-suite plus the bounded operation corpus.

What it is for
* vacuity witness: a contract whose `requires` was satisfied by a concrete native call, and whose
  `ensures` were evaluated on the concrete result, is not vacuous (hits are reported per contract);
* the contracts marked `trusted` in the sidecars and the class invariants are assumptions of
  tier P; here they are *checked* (within the workload: bounded, never counted as proved);
* a function that left the verifiable subset (drift) still meets its contract at run time.

usage: /venv/bin/python -m bounded.native <outfile> <tier> <sidecar module>...
"""
from __future__ import annotations

import json
import os
import sys
import time

ROOT = os.path.dirname(os.path.dirname(os.path.abspath(__file__)))
REPO = os.environ.get("VERIF_REPO", "/repo")


def run(sidecars, tier="quick", budget_s=240):
    from pyvc import api

    from . import rt

    rt.load(sidecars)
    keys = []
    unresolved = []
    for k in api.CONTRACTS:
        try:
            rt.resolve(k)
            keys.append(k)
        except Exception as e:  # noqa: BLE001
            unresolved.append(f"{k}: {type(e).__name__}: {e}")
    violations = []
    vseen = set()

    def on_violation(v):
        key = (v.key, v.kind, v.clause)
        if key in vseen:
            return
        vseen.add(key)
        violations.append(dict(contract=v.key, kind=v.kind, clause=v.clause, detail=str(v.detail)[:600]))

    rt.SAMPLE[:] = [200, 101]
    rt.install(keys, on_violation)
    inv_stats = install_invariants(on_violation)  # outermost: wraps the (wrapped) constructors
    t0 = time.time()
    workloads = {}
    # ---- workload 1: the repository's own tests, in process, wrappers installed
    import pytest

    cwd = os.getcwd()
    os.chdir(REPO)
    try:
        rc = pytest.main(["-q", "-x", "-p", "no:cacheprovider", "--no-header", "-o", "addopts=", "tests"])
    finally:
        os.chdir(cwd)
    workloads["repo test-suite (in process, contracts installed)"] = dict(exit=int(rc), wall_s=round(time.time() - t0, 1))
    # ---- workload 2: operations of the bounded corpus
    t1 = time.time()
    try:
        n = corpus_workload(tier, t1 + budget_s)
        workloads["bounded corpus operations"] = dict(operations=n, wall_s=round(time.time() - t1, 1))
    except Exception as e:  # noqa: BLE001
        workloads["bounded corpus operations"] = dict(error=f"{type(e).__name__}: {e}")
    rt.uninstall()
    # ---- the trusted axioms of the sidecars, evaluated on values drawn from the corpus
    t2 = time.time()
    try:
        ax_stats = check_axioms(on_violation, tier)
    except Exception as e:  # noqa: BLE001
        ax_stats = dict(error=f"{type(e).__name__}: {e}")
    workloads["trusted axioms evaluated natively"] = dict(wall_s=round(time.time() - t2, 1), **({"axioms": ax_stats} if not isinstance(ax_stats, dict) or "error" not in ax_stats else ax_stats))
    hits = {k: rt.HITS.get(k, 0) for k in keys}
    return dict(hits=hits, checked={k: rt.CHECKED.get(k, 0) for k in keys}, invariant_checks=dict(INV_HITS), violations=violations, unresolved=unresolved, workloads=workloads, invariants=inv_stats,
                test_suite_exit=int(rc), wall_s=round(time.time() - t0, 1))


INV_HITS: dict = {}


def check_axioms(on_violation, tier):
    """every axiom whose vocabulary is executable is evaluated on tuples drawn from pools of real
    values (strings, nodes, fragments, node types, marks, small ints) -> {axiom: evaluations}"""
    import itertools
    import random

    from pyvc import api

    from . import domain as D
    from . import rt

    rnd = random.Random(11)
    pools: dict = {"int": list(range(-1, 5)), "bool": [False, True], "str": ["", "a", "ab", "b", "a" + D.ASTRAL, D.ASTRAL, D.ASTRAL + "a", "ab" + D.ASTRAL + "b"]}
    nodes, frags, types, marks, mtypes = [], [], [], [], []
    for name in ("basic", "list", "table", "marksx", "note"):
        try:
            S, O = D.schema(name)
        except Exception:  # noqa: BLE001
            continue
        types.extend(S.nodes.values())
        mtypes.extend(S.marks.values())
        for doc in D.corpus(name)[:8]:
            def walk(n):
                nodes.append(n)
                frags.append(n.content)
                marks.extend(n.marks)
                if n.is_text:
                    pools["str"].append(n.text)
                for c in n.content.content:
                    walk(c)
            walk(doc)
    for k, v in (("Node", nodes), ("Fragment", frags), ("NodeType", types), ("Mark", marks), ("MarkType", mtypes)):
        rnd.shuffle(v)
        pools[k] = v[:60]
    pools["str"] = list(dict.fromkeys(pools["str"]))[:24]
    pools["list[int]"] = [list(s.encode("utf-16-le")) for s in pools["str"][:10]]
    pools["list[Node]"] = [f.content for f in frags[:30]]
    pools["list[Mark]"] = [n.marks for n in nodes[:40]]
    pools["TextNode"] = [n for n in nodes if n.is_text][:40]
    stats = {}
    for ax in api.AXIOMS:
        kinds = list(ax.vars.values())
        if any(k not in pools or not pools[k] for k in kinds):
            stats[ax.name] = "not evaluated natively: no value pool for " + ", ".join(k for k in kinds if k not in pools or not pools[k])
            continue
        try:
            code = rt.compile_clause(ax.expr)[0]
        except Exception as e:  # noqa: BLE001
            stats[ax.name] = f"not evaluated natively: {e}"
            continue
        combos = itertools.product(*[pools[k] for k in kinds]) if kinds else [()]
        n = 0
        err = None
        for combo in itertools.islice(combos, 4000 if tier == "quick" else 40000):
            env = dict(zip(ax.vars.keys(), combo))
            try:
                ok = rt.ev(code, env)
            except (IndexError, ValueError, AttributeError, TypeError, KeyError, RecursionError) as e:
                err = f"{type(e).__name__}: {e}"
                continue  # outside the vocabulary's native domain (e.g. an index guard evaluated eagerly)
            n += 1
            if not ok:
                on_violation(rt.ContractViolation(f"axiom:{ax.name}", "trusted-axiom-false", ax.expr, f"for {({k: repr(v)[:80] for k, v in env.items()})}"))
                break
        stats[ax.name] = n if n or not err else f"not evaluated natively: {err}"
    return stats


def install_invariants(on_violation):
    """class invariants declared in the sidecars are assumed by tier P for every object read;
    check them natively on every object the constructors produce"""
    import importlib

    from pyvc import api

    from . import rt

    stats = {}
    for cname, clauses in api.INVARIANTS.items():
        info = api.CLASSES.get(cname)
        if not info:
            continue
        mod = importlib.import_module(info.file[:-3].replace("/", "."))
        cls = getattr(mod, cname)
        orig = cls.__init__
        codes = [(c, rt.compile_clause(c)[0]) for c in clauses]

        def make(orig=orig, codes=codes, cname=cname, cls=cls):
            def __init__(self, *a, **kw):
                orig(self, *a, **kw)
                if rt.IN_SPEC[0] or (type(self) is not cls and type(self).__init__ is not __init__):
                    return  # inside a clause / a subclass constructor still running
                n_ = INV_HITS[cname] = INV_HITS.get(cname, 0) + 1
                if n_ > 500 and n_ % 101:
                    return
                for text, code in codes:
                    try:
                        ok = rt.ev(code, {"self": self})
                    except Exception as e:  # noqa: BLE001
                        import traceback
                        on_violation(rt.ContractViolation(f"invariant:{cname}", "invariant-not-evaluable", text, f"{type(e).__name__}: {e} :: " + " | ".join(traceback.format_stack(limit=7)[:-1])))
                        continue
                    if not ok:
                        on_violation(rt.ContractViolation(f"invariant:{cname}", "class-invariant", text, repr(self)[:200]))

            return __init__

        cls.__init__ = make()
        stats[cname] = clauses
    return stats


def splits_pair(doc, pos):
    """the position lies between the two UTF-16 units of one character (not a position a Python
    str can be cut at: the library answers with a ValueError there, which is not what is under test)"""
    try:
        rp = doc.resolve(pos)
        o = rp.text_offset
        if not o:
            return False
        units = rp.parent.child(rp.index()).text.encode("utf-16-le")
        u = int.from_bytes(units[2 * o:2 * o + 2], "little")
        return 0xDC00 <= u <= 0xDFFF
    except Exception:  # noqa: BLE001
        return False


def corpus_workload(tier, deadline):
    """a pass over the shared operation corpus: resolve every position, slice / replace ranges,
    apply steps, map positions -- enough to reach every contracted function many times"""
    import random

    from . import domain as D

    rnd = random.Random(7)
    n = 0
    from prosemirror.model import Slice
    from prosemirror.transform import Transform

    for name in ("basic", "list", "table", "marksx", "note"):
        try:
            S, O = D.schema(name)
        except Exception:  # noqa: BLE001
            continue
        docs = D.corpus(name) if hasattr(D, "corpus") else []
        for doc in docs[: (12 if tier == "quick" else 40)]:
            size = doc.content.size
            for pos in range(0, size + 1):
                if time.time() > deadline:
                    return n
                if splits_pair(doc, pos):
                    continue  # not a position a Python str can be cut at (ValueError there: not under test)
                try:
                    rp = doc.resolve(pos)
                    rp.marks()
                    rp.node_before, rp.node_after
                    n += 1
                except ValueError:
                    pass
            ok_pos = [q for q in range(0, size + 1) if not splits_pair(doc, q)]
            pairs = [(a, b) for a in ok_pos for b in ok_pos if a <= b]
            rnd.shuffle(pairs)
            for a, b in pairs[: (30 if tier == "quick" else 120)]:
                if time.time() > deadline:
                    return n
                try:
                    sl = doc.slice(a, b)
                    doc.replace(a, b, sl)
                    doc.replace(a, b, Slice.empty)
                    n += 2
                except ValueError:
                    pass
                for op in ("delete", "replace"):
                    try:
                        tr = Transform(doc)
                        if op == "delete":
                            tr.delete(a, b)
                        else:
                            a1 = next((q for q in ok_pos if a < q <= b), b)  # never a position inside a surrogate pair
                            tr.replace(a, b, doc.slice(a1, b))
                        for st, d in zip(tr.steps, tr.docs):
                            inv = st.invert(d)
                            st.get_map().map(a, 1)
                            st.map(tr.mapping)
                            if hasattr(st, "to_json"):
                                st.to_json()
                            inv.get_map()
                        tr.mapping.map(a, -1)
                        tr.mapping.map_result(b, 1)
                        tr.before.content.find_diff_start(tr.doc.content)
                        tr.before.content.find_diff_end(tr.doc.content)
                        tr.doc.content.find_diff_start(tr.doc.content)
                        n += 1
                    except ValueError:
                        pass
                # functions the tests and the edits above do not reach
                try:
                    from prosemirror.model import Fragment as _F
                    from prosemirror.transform import Mapping as _M

                    kids = doc.content.content
                    if kids:
                        doc.content.add_to_start(kids[-1])
                        doc.content.add_to_end(kids[0])
                        kids[0].is_block
                        if len(kids) > 1:
                            kids[0].can_append(kids[1])
                        cm = doc.type.content_match
                        for e_i in range(cm.edge_count):
                            cm.edge(e_i)
                    Slice.max_open(doc.content, False)
                    Slice.max_open(doc.slice(a, b).content, True)
                    tr = Transform(doc)
                    mk = S.marks[sorted(S.marks)[n % len(S.marks)]].create() if S.marks else None
                    if mk is not None and mk.type.spec.get("attrs") is None:
                        tr.add_mark(a, b, mk)
                        tr.remove_mark(a, b, mk)
                        mk.type.remove_from_set(mk.add_to_set([]))
                    if a < size:
                        nd = doc.node_at(a)
                        if nd is not None and not nd.is_text and mk is not None and mk.type.spec.get("attrs") is None:
                            try:
                                tr.add_node_mark(a, mk)
                                tr.remove_node_mark(a, mk)
                            except ValueError:
                                pass
                    tr.delete(a, b)
                    mp = _M()
                    mp.append_mapping(tr.mapping)
                    cp = mp.copy()
                    cp.append_mapping_inverted(tr.mapping)
                    for st in tr.steps:
                        st.map(cp)
                        st.map(st.get_map())
                        st.get_map().for_each(lambda *x: None)
                        r_ = st.get_map().map_result(a, 1)
                        if r_.recover is not None:
                            st.get_map().touches(a, r_.recover)
                    tr.doc_changed
                    n += 1
                except ValueError:
                    pass
                from prosemirror.transform import can_split, lift_target

                try:
                    r = doc.resolve(a).block_range(doc.resolve(b))
                    if r is not None:
                        lift_target(r)
                    can_split(doc, a)
                    n += 1
                except ValueError:
                    pass
    return n


def main():
    outfile, tier = sys.argv[1], sys.argv[2]
    res = run(sys.argv[3:], tier)
    with open(outfile, "w") as f:
        json.dump(res, f, indent=1, default=str)


if __name__ == "__main__":
    main()
