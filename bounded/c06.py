"""C06 bounded stand-in (nothing deductive is claimed): a content expression and its compiled
matcher accept the same sequences -- decided per expression by automaton equivalence."""
from __future__ import annotations

import itertools
import random

from spec import regex as rx

from .common import Recorder

NAMES = ["a", "b", "c"]


def gen_exprs(size):
    """expression strings by syntax-tree size"""
    memo = {}

    def go(n):
        if n in memo:
            return memo[n]
        out = []
        if n == 1:
            out = ["a", "b", "c", "g", "r"]
        else:
            for e in go(n - 1):
                for suf in ("*", "+", "?", "{2}", "{1,}", "{1,2}", "{0,2}"):
                    out.append(f"({e}){suf}" if (" " in e or "|" in e) else f"{e}{suf}")
            for k in range(1, n - 1):
                for l, r in itertools.product(go(k), go(n - 1 - k)):
                    out.append(f"{paren(l)} {paren(r)}")
                    out.append(f"{l} | {r}")
        memo[n] = out
        return out

    def paren(e):
        return f"({e})" if "|" in e else e

    res = []
    for n in range(1, size + 1):
        res.extend(go(n))
    return res


def schema_for(expr):
    from prosemirror.model import Schema

    return Schema({
        "nodes": {
            "doc": {"content": expr},
            "a": {"group": "g"},
            "b": {"group": "g"},
            "c": {},
            "r": {"attrs": {"x": {}}},  # not generatable: required attribute
            "text": {},
        }
    })


def resolve(name):
    if name in ("a", "b", "c", "r"):
        return [name]
    if name == "g":
        return ["a", "b"]
    return []


def check_expr(rec, expr):
    call = dict(fn="ContentMatch.parse", expr=expr)
    try:
        r = rx.parse(expr, resolve)
        wellformed = True
    except rx.ParseError:
        wellformed = False
    dfa = rx.DFA(r, ["a", "b", "c", "r"]) if wellformed else None
    dead_end = False
    if wellformed:
        # a reachable live non-accepting state whose every continuation needs a non-generatable node
        seen = {dfa.start}
        todo = [dfa.start]
        while todo:
            s = todo.pop()
            if s not in dfa.live:
                continue
            nxt = [a for a in dfa.alphabet if dfa.trans[(s, a)] in dfa.live]
            if not rx.nullable(s) and nxt and all(a == "r" for a in nxt):
                dead_end = True
            for a in nxt:
                d = dfa.trans[(s, a)]
                if d not in seen:
                    seen.add(d)
                    todo.append(d)
    try:
        S = schema_for(expr)
    except Exception as e:  # noqa: BLE001
        if wellformed and not dead_end:
            rec.violation("rejects-wellformed", f"{type(e).__name__}: {e}", call)
        else:
            rec.count("rejected malformed (" + type(e).__name__ + ")")
        return
    if not wellformed:
        rec.violation("accepts-malformed", "schema built from a malformed expression", call)
        return
    if dead_end:
        rec.violation("accepts-dead-end", "a required position can only be filled by a non-generatable node, yet the schema was built", call)
        return
    start = S.nodes["doc"].content_match
    types = {n: S.nodes[n] for n in dfa.alphabet}
    seen = {}
    todo = [(start, dfa.start, ())]
    while todo:
        m, s, path = todo.pop()
        key = (id(m), s)
        if key in seen:
            continue
        seen[key] = True
        if bool(m.valid_end) != rx.nullable(s):
            rec.violation("valid-end", f"after {list(path)}: matcher valid_end={m.valid_end}, expression accepts={rx.nullable(s)}", call)
            return
        for a in dfa.alphabet:
            m2 = m.match_type(types[a])
            d = dfa.trans[(s, a)]
            alive = d in dfa.live
            if (m2 is not None) != alive:
                rec.violation("alive", f"after {list(path) + [a]}: matcher state {'kept' if m2 is not None else 'dropped'}, prefix {'can' if alive else 'cannot'} be extended to a match", call)
                return
            if m2 is not None and len(path) < 12:
                todo.append((m2, d, path + (a,)))
    rec.count("equivalent")


def run(tier, seed, findings):
    rec = Recorder("C06")
    rnd = random.Random(seed)
    size = 3 if tier == "quick" else 4
    exprs = gen_exprs(size)
    if tier == "quick" and len(exprs) > 2500:
        rnd.shuffle(exprs)
        exprs = exprs[:2500]
    for e in exprs:
        rec.case(("expr", e), nontrivial=len(e) > 1, sample=dict(expr=e))
        check_expr(rec, e)
    # random larger expressions
    big = gen_exprs(2)
    for _ in range(200 if tier == "quick" else 3000):
        parts = [rnd.choice(big) for _ in range(rnd.randint(2, 4))]
        e = parts[0]
        for p in parts[1:]:
            op = rnd.choice([" ", " | "])
            e = f"({e}){op}({p})" if op == " | " else f"({e}) ({p})"
            if rnd.random() < 0.3:
                e = f"({e})" + rnd.choice(["*", "+", "?", "{2}", "{1,2}"])
        rec.case(("expr", e), sample=dict(expr=e))
        check_expr(rec, e)
    # strings outside the grammar
    toks = ["a", "b", "g", "(", ")", "|", "*", "+", "?", "{", "}", ",", "1", "2", "zz", "text"]
    n_mal = 0
    for n in (1, 2, 3, 4) if tier == "quick" else (1, 2, 3, 4, 5):
        combos = list(itertools.product(toks, repeat=n))
        if len(combos) > (3000 if tier == "quick" else 40000):
            rnd.shuffle(combos)
            combos = combos[: (3000 if tier == "quick" else 40000)]
        for c in combos:
            e = " ".join(c)
            if "text" in c:
                # mixing inline and block content must be rejected; "text" alone is fine
                try:
                    rx.parse(e, lambda n: resolve(n) or (["text"] if n == "text" else []))
                    names = set(c) & {"a", "b", "g"}
                    mixed = bool(names)
                except rx.ParseError:
                    mixed = None
                try:
                    schema_for(e)
                    if mixed or mixed is None:
                        rec.violation("accepts-malformed", "mixed inline/block or malformed expression accepted", dict(fn="ContentMatch.parse", expr=e))
                except Exception:  # noqa: BLE001
                    pass
                rec.case(("expr", e), nontrivial=False)
                continue
            rec.case(("expr", e), sample=dict(expr=e))
            check_expr(rec, e)
            n_mal += 1
    return rec.result(
        rule="all expression syntax trees up to size N over {a, b, c, group g={a,b}, non-generatable r} with seq | ? * + {n} {n,} {n,m}; random larger ones; token strings up to length L (malformed ones must be rejected). Equivalence with the compiled matcher is decided per expression by a product of the matcher with an independent derivative automaton (all sequences, unbounded length), incl. liveness of every state; distinct by expression string",
        bounds=dict(tier=tier, ast_size=size),
        exhaustive=False,
    )
