"""C14 bounded cross-check: mark-set algebra on every small mark configuration, all sets
reachable by additions/removals, against the set-theoretic oracle; compilation of the
excludes / marks declarations in Schema.__init__."""
from __future__ import annotations

import itertools
import random

from spec import oracle as orc

from . import rt
from .common import Recorder

SIDE = ["contracts.model_mark"]


def configs(tier, rnd):
    """schema specs with up to 4 mark types and arbitrary exclusion declarations"""
    names = ["a", "b", "c", "d"]
    out = []
    decls = [None, "", "_", "a", "b", "a b", "g", "c"]
    for n in (2, 3) if tier == "quick" else (2, 3, 4):
        ms = names[:n]
        combos = list(itertools.product(decls, repeat=n))
        rnd.shuffle(combos)
        for combo in combos[: (60 if tier == "quick" else 400)]:
            marks = {}
            ok = True
            for m, ex in zip(ms, combo):
                spec = {}
                if ex is not None:
                    if any(x not in ms + ["_", "g"] for x in ex.split()):
                        ok = False
                    spec["excludes"] = ex
                if m in ("a", "b"):
                    spec["group"] = "g"
                if m == "a":
                    spec["attrs"] = {"k": {"default": 0}}
                marks[m] = spec
            if not ok:
                continue
            for pm in ("_", "a", "g", "", None, "b c"):
                if pm and any(x not in ms + ["_", "g"] for x in pm.split()):
                    continue
                para = {"content": "text*", "group": "block"}
                if pm is not None:
                    para["marks"] = pm
                out.append({"nodes": {"doc": {"content": "block+"}, "paragraph": para, "text": {"group": "inline"}}, "marks": marks})
    # group names that contain one another, marks in several groups: a group reference must match whole names
    for ga, gb in (("g", "gg"), ("font", "fontsize"), ("x g", "gx"), ("link", "hyperlink x")):
        ref = ga.split()[-1]
        for ex_c in (ref, "_", ""):
            for pm in (ref, gb.split()[0], None):
                marks = {"a": {"group": ga}, "b": {"group": gb}, "c": {"excludes": ex_c}, "d": {"group": gb, "excludes": ref}}
                para = {"content": "text*", "group": "block"}
                if pm is not None:
                    para["marks"] = pm
                out.insert(0, {"nodes": {"doc": {"content": "block+"}, "paragraph": para, "text": {"group": "inline"}}, "marks": marks})
    # further node types in every configuration: what a missing `marks` declaration means depends on whether the type
    # has inline content - not on whether it is a block (an inline node with inline content admits every mark)
    for spec in out:
        ms = list(spec["marks"])
        spec["nodes"] = dict(spec["nodes"])
        spec["nodes"]["paragraph"] = {**spec["nodes"]["paragraph"], "content": "inline*"}
        spec["nodes"]["note"] = {"content": "text*", "group": "inline", "inline": True, "atom": True}
        spec["nodes"]["pill"] = {"content": "text*", "group": "inline", "inline": True, "marks": ms[0]}
        spec["nodes"]["dot"] = {"group": "inline", "inline": True}
        spec["nodes"]["box"] = {"content": "block+", "group": "block"}
    return out


def key(m):
    return (m.type.name, orc.canon_json(m.attrs))


def run(tier, seed, findings):
    from prosemirror.model import Mark, Schema

    rec = Recorder("C14")
    rnd = random.Random(seed)
    rt.load(SIDE)
    fns = {k: rt.resolve(k)[3] for k in ("Mark.add_to_set", "Mark.remove_from_set", "Mark.is_in_set", "Mark.same_set", "NodeType.allowed_marks", "NodeType.allows_marks", "MarkType.excludes")}

    def contract(key, args, call):
        """the sidecar contract (the text tier P proves) evaluated natively on this input: ties
        the specification functions to the independent oracle used below"""
        try:
            rt.check_call(key, fns[key], args, {})
        except rt.ContractViolation as v:
            rec.violation(f"contract:{key}:{v.kind}", f"{v.clause} {v.detail}"[:300], call)
        except rt.PreconditionFailed:
            pass

    cfgs = configs(tier, rnd)
    rnd.shuffle(cfgs)
    for spec in cfgs[: (150 if tier == "quick" else 1500)]:
        call0 = dict(marks={k: v for k, v in spec["marks"].items()}, para_marks=spec["nodes"]["paragraph"].get("marks"))
        try:
            S = Schema(spec)
        except Exception as e:  # noqa: BLE001
            rec.violation("schema-build", f"{type(e).__name__}: {e}", call0)
            continue
        O = orc.OSchema(spec)
        # compilation of declarations
        for m, mt in S.marks.items():
            got = {x.name for x in mt.excluded}
            if got != O.marks[m].excluded:
                rec.violation("excludes-compile", f"{m} excludes {sorted(got)}, declaration says {sorted(O.marks[m].excluded)}", call0)
            for m2, mt2 in S.marks.items():
                if mt.excludes(mt2) != O.excludes(m, m2):
                    rec.violation("excludes-method", f"{m}.excludes({m2})", call0)
        pt = S.nodes["paragraph"]
        for tn, nt_ in S.nodes.items():
            for m, mt in S.marks.items():
                if nt_.allows_mark_type(mt) != O.allows(tn, m):
                    rec.violation("allows-compile", f"{tn} allows {m}: {nt_.allows_mark_type(mt)}", dict(call0, node=tn, node_spec=spec["nodes"][tn]))
        # all mark instances
        inst = []
        for m, mt in S.marks.items():
            if mt.attrs:
                inst += [mt.create({"k": 0}), mt.create({"k": 1})]
            else:
                inst.append(mt.create())
        # closure of reachable sets
        seen = {(): []}
        todo = [[]]
        while todo and len(seen) < (300 if tier == "quick" else 3000):
            cur = todo.pop()
            for m in inst:
                call = dict(call0, set=[key(x) for x in cur], mark=key(m))
                rec.case(("add", orc.canon_json(call)), nontrivial=bool(cur), sample=call)
                before = list(cur)
                contract("Mark.add_to_set", [m, cur], call)
                contract("Mark.remove_from_set", [m, cur], call)
                contract("Mark.is_in_set", [m, cur], call)
                try:
                    new = m.add_to_set(cur)
                except Exception as e:  # noqa: BLE001
                    rec.violation("add-raises", f"{type(e).__name__}: {e}", call)
                    continue
                if [key(x) for x in cur] != [key(x) for x in before]:
                    rec.violation("add-mutates-input", "add_to_set changed the list it was given", call)
                exp = O.spec_add(key(m), [key(x) for x in cur])
                if [key(x) for x in new] != exp:
                    rec.violation("add-to-set", f"gives {[key(x) for x in new]}, documented rule gives {exp}", call)
                    continue
                if not O.canon_marks(new):
                    rec.violation("add-not-canonical", f"{[key(x) for x in new]}", call)
                k2 = tuple(key(x) for x in new)
                if k2 not in seen:
                    seen[k2] = new
                    todo.append(new)
                # removal / membership / equality as set operations
                rem = m.remove_from_set(cur)
                if [key(x) for x in rem] != [key(x) for x in cur if key(x) != key(m)]:
                    rec.violation("remove-from-set", f"{[key(x) for x in rem]}", call)
                if m.is_in_set(cur) != (key(m) in [key(x) for x in cur]):
                    rec.violation("is-in-set", "", call)
                k3 = tuple(key(x) for x in rem)
                if k3 not in seen:
                    seen[k3] = rem
                    todo.append(rem)
            # filtering for the parent type
            contract("NodeType.allowed_marks", [pt, cur], dict(call0, set=[key(x) for x in cur]))
            contract("NodeType.allows_marks", [pt, cur], dict(call0, set=[key(x) for x in cur]))
            got = pt.allowed_marks(cur)
            exp = [key(x) for x in cur if O.allows("paragraph", x.type.name)]
            if [key(x) for x in got] != exp:
                rec.violation("allowed-marks", f"paragraph.allowed_marks({[key(x) for x in cur]}) = {[key(x) for x in got]}, expected {exp}", call0)
            if pt.allows_marks(cur) != all(O.allows("paragraph", x.type.name) for x in cur):
                rec.violation("allows-marks", "", dict(call0, set=[key(x) for x in cur]))
        sets = list(seen.values())
        for a in sets[:40]:
            for b in sets[:40]:
                contract("Mark.same_set", [a, b], dict(call0, a=[key(x) for x in a], b=[key(x) for x in b]))
                if Mark.same_set(a, b) != ([key(x) for x in a] == [key(x) for x in b]):
                    rec.violation("same-set", "", dict(call0, a=[key(x) for x in a], b=[key(x) for x in b]))
            # set_from sorts by rank
            sh = list(a)
            rnd.shuffle(sh)
            sf = Mark.set_from(sh)
            if sorted([key(x) for x in sf]) != sorted([key(x) for x in a]) or [O.marks[x.type.name].rank for x in sf] != sorted(O.marks[x.type.name].rank for x in sf):
                rec.violation("set-from", "", dict(call0, marks=[key(x) for x in sh]))
    return rec.result(
        rule="mark configurations with <= 4 types (groups, attrs, excludes in {absent, '', '_', names, group}), parent 'marks' declarations; every set reachable from [] by add_to_set / remove_from_set; non-trivial = non-empty set; distinct by (configuration, set, mark)",
        bounds=dict(tier=tier, configurations=min(len(cfgs), 150 if tier == "quick" else 1500)),
    )
