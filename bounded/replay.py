"""Replay a solver counter-model (or a recorded tier-B call) against the real code.
usage: /venv/bin/python -m bounded.replay <file.json>
exit 0: the contract holds on that input; 1: violated (prints what); 2: inconclusive."""
from __future__ import annotations

import json
import signal
import sys

from . import rt


class Timeout(Exception):
    pass


def _alarm(*_):
    raise Timeout()


def replay_model(doc):
    rt.load(doc["sidecars"])
    key = doc["contract"]
    from pyvc import api

    if key not in api.CONTRACTS:
        return 2, f"{key} is a lemma; nothing to execute"
    c = api.CONTRACTS[key]
    owner, name, raw, fn = rt.resolve(key)
    ids: dict = {}
    model = doc.get("model") or {}
    args = []
    for p, k in c.params.items():
        if p not in model:
            return 2, f"model has no value for {p}"
        v = rt.reify(model[p], ids)
        if k == "func":
            v = lambda *a: None  # noqa: E731
        args.append(v)
    signal.signal(signal.SIGALRM, _alarm)
    signal.alarm(5)
    try:
        res = rt.check_call(key, fn, args, {})
        return 0, f"contract held natively; result={res!r}"
    except rt.PreconditionFailed as p:
        return 2, f"model does not satisfy requires natively ({p.clause}); abstraction artefact"
    except rt.ContractViolation as v:
        # a solver model is partial: an object the obligation did not constrain comes back without its fields, and
        # the real code then dies on it with AttributeError / TypeError. That is an artefact of the model, not a
        # failing input: the obligation is still reported as failed, but without a claimed input.
        if v.kind in ("unexpected-exception", "ensures-not-evaluable") and any(x in f"{v.clause} {v.detail}" for x in ("AttributeError", "TypeError")):
            return 2, f"counter-model is partial, not executable as it stands ({v.kind}: {v.clause} {v.detail})"[:400]
        return 1, f"{v.kind}: {v.clause} {v.detail}"
    except Timeout:
        return 1, "no return within 5 s"
    except Exception as e:  # noqa: BLE001
        if any(type(e).__name__ == x or any(t.__name__ == x for t in type(e).__mro__) for x in c.raises):
            return 0, f"raised allowed {type(e).__name__}"
        if isinstance(e, (AttributeError, TypeError)):
            return 2, f"counter-model is partial, not executable as it stands ({type(e).__name__}: {e})"[:400]
        return 1, f"unexpected {type(e).__name__}: {e}"
    finally:
        signal.alarm(0)


def main():
    doc = json.load(open(sys.argv[1]))
    if doc.get("kind") == "native":
        from . import native

        res = native.run(doc["sidecars"], "quick")
        hit = [v for v in res["violations"] if v["contract"] == doc["contract"] and v["kind"] == doc["violation"] and v["clause"] == doc["clause"]]
        code, msg = (1, f"still fails natively: {hit[0]['detail'][:300]}") if hit else (0, "the contract held natively on the whole workload")
    elif doc.get("kind") == "tierB":
        from . import drivers

        code, msg = drivers.replay(doc)
    else:
        code, msg = replay_model(doc)
    print(json.dumps({"code": code, "message": msg}))
    sys.exit(code)


if __name__ == "__main__":
    main()
