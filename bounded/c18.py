"""C18 bounded stand-in: edits inside an isolating node stay inside it."""
from __future__ import annotations

import random

from spec import oracle as orc

from . import domain as D
from . import ops
from .c02 import splits_pair
from .c11 import OPS, payloads, run_op
from .common import Recorder, Timeout, time_limit

SCHEMAS = ["iso", "table"]


def iso_nodes(root):
    out = []

    def walk(n, depth):
        for k in n.kids:
            if k.node.type.spec.get("isolating"):
                out.append((k, depth + 1))
            if k.kids:
                walk(k, depth + 1)

    walk(root, 0)
    return out


def check_inside(rec, call, toks, N, new_doc, events=()):
    nt = orc.tokens(new_doc)
    head = toks[: N.pos + 1]  # everything before the node plus its opening token (type, attrs, marks)
    tail = toks[N.pos + N.size - 1:]  # its closing token and everything after
    if nt[: len(head)] != head:
        rec.violation("iso-before", "tokens before the isolating node (or its opening) changed", call, events)
        return
    if len(nt) < len(head) + len(tail) or nt[len(nt) - len(tail):] != tail:
        rec.violation("iso-after", "tokens after the isolating node (or its closing) changed", call, events)
        return
    # the opening and closing token must still match each other: balanced in between
    depth = 0
    for x in nt[len(head): len(nt) - len(tail)]:
        if x[0] == "open":
            depth += 1
        elif x[0] == "close":
            depth -= 1
            if depth < 0:
                rec.violation("iso-split", "the isolating node was closed early (split or merged)", call, events)
                return
    if depth != 0:
        rec.violation("iso-split", "the isolating node does not enclose the new content", call, events)


EVENTS: list = []


def install_probe():
    """Ghost event for the call-site keyed known finding: the fitter gives up an isolating
    frontier node (closes it although the range lies inside it)."""
    from prosemirror.transform import replace as tr_replace

    F = tr_replace.Fitter
    if getattr(F, "_verif_probe", False):
        return
    orig = F.close_frontier_node

    def close_frontier_node(self):
        top = self.frontier[-1]
        if top.type.spec.get("isolating"):
            EVENTS.append("fitter-closed-isolating-frontier")
        return orig(self)

    F.close_frontier_node = close_frontier_node
    F._verif_probe = True
    from prosemirror.transform import structure

    orig_ip = structure.insert_point

    def insert_point(doc, pos, node_type):
        res = orig_ip(doc, pos, node_type)
        if res is not None and res != pos:
            rp = doc.resolve(pos)
            for d in range(rp.depth, 0, -1):
                if rp.node(d).type.spec.get("isolating") and not (rp.start(d) <= res <= rp.end(d)):
                    EVENTS.append("insert-point-left-isolating")
                    break
        return res

    structure.insert_point = insert_point


def run(tier, seed, findings):
    from prosemirror.transform import structure

    install_probe()
    from . import c11 as _c11

    _c11.install_probe()
    rec = Recorder("C18")
    rnd = random.Random(seed)
    for name in SCHEMAS:
        S, O = D.schema(name)
        after_types = [n for n, nt in O.nodes.items() if not (nt.is_leaf or nt.is_text or nt.has_required_attrs() or n == O.top) and not nt.spec.get("isolating")][:4]
        docs = [d for d in D.corpus(name, 10 if tier == "quick" else 50, seed) if d.content.size <= 30]
        pool = [s for s in D.slice_pool(name, D.corpus(name, 20, seed + 1), rnd, 40 if tier == "quick" else 150) if ops.slice_ok(O, s)]
        nodes = payloads(name, S, O, pool, rnd)
        for doc in docs:
            toks = orc.tokens(doc)
            root = orc.otree(doc)
            for N, dN in iso_nodes(root):
                lo, hi = N.content_start, N.content_end
                ranges = [(f, t) for f in range(lo, hi + 1) for t in range(f, hi + 1) if not (splits_pair(toks, f) or splits_pair(toks, t))]
                if len(ranges) > (25 if tier == "quick" else 120):
                    keep = [(lo, hi)]
                    rnd.shuffle(ranges)
                    ranges = keep + ranges[: (25 if tier == "quick" else 120)]
                for f, t in ranges:
                    for op in OPS:
                        if op in ("delete", "delete_range"):
                            cases = [(None, "-")]
                        elif op in ("replace", "replace_range"):
                            cases = [(s, D.slice_json(s)) for s in rnd.sample(pool, min(len(pool), 3 if tier == "quick" else 8))]
                        else:
                            if op == "insert" and f != t:
                                continue
                            cases = [(n, D.doc_json(n)) for n in rnd.sample(nodes, min(len(nodes), 2 if tier == "quick" else 4))]
                        for payload, desc in cases:
                            call = dict(fn=op, schema=name, doc=D.doc_json(doc), f=f, t=t, payload=desc, isolating=dict(type=N.name, pos=N.pos))
                            rec.case((op, name, orc.canon_json(D.doc_json(doc)), f, t, orc.canon_json(desc)), sample=dict(schema=name, doc=str(doc), op=op, f=f, t=t, inside=f"{N.name}@{N.pos}"))
                            del EVENTS[:]
                            try:
                                with time_limit(2):
                                    tr = run_op(name, doc, op, f, t, payload)
                            except Timeout:
                                rec.violation("op-hangs", "no return within 2 s", call)
                                continue
                            except _c11.FitterNoProgress:
                                rec.count("fitter does not terminate (C11's known finding)")
                                continue
                            except Exception as e:  # noqa: BLE001
                                rec.count(f"raised {type(e).__name__} (C11's subject)")
                                continue
                            check_inside(rec, call, toks, N, tr.doc, sorted(set(EVENTS)))
                    # lift targets and splits never cross the boundary
                    try:
                        rf, rt_ = doc.resolve(f), doc.resolve(t)
                        br = rf.block_range(rt_)
                        if br is not None and br.depth >= dN:
                            tgt = structure.lift_target(br)
                            if tgt is not None and tgt < dN:
                                rec.violation("lift-crosses", f"lift_target {tgt} is outside the isolating node at depth {dN}", dict(fn="lift_target", schema=name, doc=D.doc_json(doc), f=f, t=t))
                        for depth in (1, 2, 3):
                            if rf.depth - depth + 1 <= dN and structure.can_split(doc, f, depth):
                                rec.violation("split-crosses", f"can_split(depth={depth}) approves splitting the isolating node at depth {dN}", dict(fn="can_split", schema=name, doc=D.doc_json(doc), pos=f, depth=depth))
                            # the same question with the types of the nodes after the split given
                            if rf.depth - depth + 1 <= dN:
                                for tn in after_types:
                                    ta = [structure.NodeTypeWithAttrs(S.nodes[tn])] * 1
                                    try:
                                        ok_ = structure.can_split(doc, f, depth, ta)
                                    except Exception:  # noqa: BLE001
                                        continue  # C12's subject
                                    if ok_:
                                        rec.violation("split-crosses", f"can_split(depth={depth}, types_after=[{tn}]) approves splitting the isolating node at depth {dN}",
                                                      dict(fn="can_split", schema=name, doc=D.doc_json(doc), pos=f, depth=depth, types_after=[tn]))
                    except Exception as e:  # noqa: BLE001
                        rec.count(f"helper raised {type(e).__name__} (C12's subject)")
    return rec.result(
        rule="every (sampled when > N) range inside every isolating node (incl. its whole content) x 7 replace-family operations x payload-valid slices / nodes, on corpus + generated documents of the isolating-box and table-like schemas (cells nested up to depth 3); lift_target / can_split at the same positions; distinct by (op, schema, document JSON, range, payload JSON)",
        bounds=dict(tier=tier, schemas=SCHEMAS),
    )
