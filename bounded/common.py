"""Shared infrastructure for the bounded (tier B) drivers."""
from __future__ import annotations

import hashlib
import json
import os
import signal
import time

ROOT = os.path.dirname(os.path.dirname(os.path.abspath(__file__)))
OUT = os.path.join(ROOT, "out")


class Timeout(Exception):
    pass


def _alarm(*_):
    raise Timeout()


class time_limit:
    def __init__(self, seconds):
        self.s = seconds

    def __enter__(self):
        signal.signal(signal.SIGALRM, _alarm)
        signal.setitimer(signal.ITIMER_REAL, self.s)

    def __exit__(self, *a):
        signal.setitimer(signal.ITIMER_REAL, 0)
        return False


class Recorder:
    """Collects evaluations, distinct non-trivial cases, samples and violations."""

    def __init__(self, prop, max_violations=40):
        self.prop = prop
        self.evaluations = 0
        self.distinct: set = set()
        self.samples: list = []
        self.violations: list = []
        self.vkeys: set = set()
        self.vclasses: dict = {}
        self.max_violations = max_violations
        self.counters: dict = {}
        self.t0 = time.time()

    def case(self, canon, nontrivial=True, sample=None):
        self.evaluations += 1
        if nontrivial:
            h = hashlib.blake2b(canon.encode() if isinstance(canon, str) else json.dumps(canon, sort_keys=True, default=str).encode(), digest_size=8).digest()
            if h not in self.distinct:
                self.distinct.add(h)
                if sample is not None and len(self.samples) < 6 and (len(self.distinct) % 997 == 1 or len(self.samples) < 2):
                    self.samples.append(sample)

    def count(self, name, n=1):
        self.counters[name] = self.counters.get(name, 0) + n

    def violation(self, check, what, call, events=()):
        """check: short id of the violated clause; call: JSON-able description of the exact call."""
        key = json.dumps([check, call], sort_keys=True, default=str)
        if key in self.vkeys:
            return
        self.vkeys.add(key)
        # every class (check, events) stays represented: a per-class cap, not a global one
        cls = (check, tuple(events))
        n = self.vclasses.get(cls, 0)
        self.vclasses[cls] = n + 1
        if n < 6 and len(self.violations) < 300:
            self.violations.append(dict(check=check, what=what, call=call, events=list(events)))
        else:
            self.count("violations_not_listed")

    def result(self, **extra):
        return dict(
            property=self.prop,
            evaluations=self.evaluations,
            distinct_nontrivial=len(self.distinct),
            samples=self.samples,
            violations=self.violations,
            counters=self.counters,
            wall_s=round(time.time() - self.t0, 2),
            **extra,
        )
