"""C12 bounded stand-in: structure helpers approve only edits that then succeed and keep
the content."""
from __future__ import annotations

import random

from spec import oracle as orc

from . import domain as D
from . import ops
from .c02 import splits_pair
from . import c11 as _c11
from .common import Recorder, Timeout, time_limit

SCHEMAS = ["basic", "list", "strict", "iso", "table"]


def perform(rec, name, O, doc, what, call, fn, structure_only=True, events=()):
    from prosemirror.transform import Transform

    tr = Transform(doc)
    try:
        with time_limit(2):
            fn(tr)
    except Timeout:
        rec.violation(f"{what}-hangs", "approved edit does not return within 2 s", call)
        return
    except _c11.FitterNoProgress as e:
        rec.violation(f"{what}-hangs", f"approved edit does not terminate: {e}", call, ["fitter-no-progress"])
        return
    except Exception as e:  # noqa: BLE001
        rec.violation(f"{what}-approved-but-fails", f"{type(e).__name__}: {e}", call, events)
        return
    why = O.valid(tr.doc)
    if why:
        rec.violation(f"{what}-invalid", why, call)
        return
    if structure_only and orc.leafseq(tr.doc) != orc.leafseq(doc):
        rec.violation(f"{what}-content", "the sequence of text and leaf nodes changed", call)


def lift_remainder_invalid(r, tgt):
    """ghost event of the known finding (precise form): the lift crosses >= 2 levels, at some inner
    level content of the inner node stays behind after the range, and the enclosing node's remainder
    -- the re-wrapped inner remainder followed by the later siblings -- is NOT valid content for the
    enclosing node's type (lift_target's can_cut test looked at the later siblings only)"""
    f, t = r.from_, r.to
    for L in range(tgt + 1, r.depth):
        inner = f.node(L + 1)
        inner_after = t.index_after(L + 1) if L + 1 < r.depth else r.end_index
        if inner_after >= inner.child_count:
            continue  # nothing of the inner node stays behind
        outer = f.node(L)
        m = outer.type.content_match.match_type(inner.type)
        if m is None:
            return True
        m = m.match_fragment(outer.content, t.index_after(L))
        if m is None or not m.valid_end:
            return True
    return False


def run(tier, seed, findings):
    from prosemirror.transform import structure

    _c11.install_probe()
    rec = Recorder("C12")
    rnd = random.Random(seed)
    for name in SCHEMAS:
        S, O = D.schema(name)
        docs = [d for d in D.corpus(name, 10 if tier == "quick" else 40, seed) if d.content.size <= 26]
        pool = [s for s in D.slice_pool(name, docs, rnd, 30) if ops.slice_ok(O, s)]
        wrap_types = [n for n, nt in O.nodes.items() if not nt.is_leaf and not nt.is_text and not nt.inline_content and n != O.top]
        ins_types = [n for n, nt in O.nodes.items() if not nt.is_text and n != O.top and not nt.has_required_attrs()]
        for doc in docs:
            size = doc.content.size
            toks = orc.tokens(doc)
            dj = D.doc_json(doc)
            for pos in range(size + 1):
                if splits_pair(toks, pos):
                    continue
                rec.case(("pos", name, orc.canon_json(dj), pos), sample=dict(schema=name, doc=str(doc), pos=pos))
                for depth in (1, 2, 3):
                    call = dict(fn="can_split", schema=name, doc=dj, pos=pos, depth=depth)
                    try:
                        ok = structure.can_split(doc, pos, depth)
                    except Exception as e:  # noqa: BLE001
                        rec.violation("can-split-raises", f"{type(e).__name__}: {e}", call)
                        continue
                    if ok:
                        rec.count("approved split")
                        perform(rec, name, O, doc, "split", call, lambda tr: tr.split(pos, depth))
                call = dict(fn="can_join", schema=name, doc=dj, pos=pos)
                try:
                    ok = structure.can_join(doc, pos)
                except Exception as e:  # noqa: BLE001
                    rec.violation("can-join-raises", f"{type(e).__name__}: {e}", call)
                    ok = False
                if ok:
                    rec.count("approved join")
                    perform(rec, name, O, doc, "join", call, lambda tr: tr.join(pos))
                for dir_ in (-1, 1):
                    call = dict(fn="join_point", schema=name, doc=dj, pos=pos, dir=dir_)
                    try:
                        jp = structure.join_point(doc, pos, dir_)
                    except Exception as e:  # noqa: BLE001
                        rec.violation("join-point-raises", f"{type(e).__name__}: {e}", call)
                        continue
                    if jp is not None:
                        if not (0 <= jp <= size):
                            rec.violation("join-point-range", f"{jp}", call)
                            continue
                        rec.count("approved join point")
                        perform(rec, name, O, doc, "join-point", call, lambda tr: tr.join(jp))
                for tn in ins_types:
                    call = dict(fn="insert_point", schema=name, doc=dj, pos=pos, type=tn)
                    try:
                        ip = structure.insert_point(doc, pos, S.nodes[tn])
                    except Exception as e:  # noqa: BLE001
                        rec.violation("insert-point-raises", f"{type(e).__name__}: {e}", call)
                        continue
                    if ip is not None:
                        if not (0 <= ip <= size):
                            rec.violation("insert-point-range", f"{ip}", call)
                            continue
                        node = S.nodes[tn].create_and_fill()
                        if node is None:
                            continue
                        rec.count("approved insert point")
                        perform(rec, name, O, doc, "insert-point", call, lambda tr: tr.insert(ip, node), structure_only=False)
                for s in pool[:: (3 if tier == "quick" else 1)]:
                    call = dict(fn="drop_point", schema=name, doc=dj, pos=pos, slice=D.slice_json(s))
                    try:
                        dp = structure.drop_point(doc, pos, s)
                    except Exception as e:  # noqa: BLE001
                        rec.violation("drop-point-raises", f"{type(e).__name__}: {e}", call)
                        continue
                    if dp is not None:
                        if not (0 <= dp <= size):
                            rec.violation("drop-point-range", f"{dp}", call)
                            continue
                        rec.count("approved drop point")
                        perform(rec, name, O, doc, "drop-point", call, lambda tr: tr.replace(dp, dp, s), structure_only=False)
            pairs = [(f, t) for f in range(size + 1) for t in range(f, size + 1) if not (splits_pair(toks, f) or splits_pair(toks, t))]
            if len(pairs) > (60 if tier == "quick" else 300):
                rnd.shuffle(pairs)
                pairs = pairs[: (60 if tier == "quick" else 300)]
            for f, t in pairs:
                try:
                    r = doc.resolve(f).block_range(doc.resolve(t))
                except Exception as e:  # noqa: BLE001
                    rec.violation("block-range-raises", f"{type(e).__name__}: {e}", dict(fn="block_range", schema=name, doc=dj, f=f, t=t))
                    continue
                if r is None:
                    continue
                call = dict(fn="lift_target", schema=name, doc=dj, f=f, t=t)
                rec.case(("range", name, orc.canon_json(dj), f, t))
                try:
                    tgt = structure.lift_target(r)
                except Exception as e:  # noqa: BLE001
                    rec.violation("lift-target-raises", f"{type(e).__name__}: {e}", call)
                    tgt = None
                if tgt is not None:
                    rec.count("approved lift")
                    # ghost event for the call-site keyed finding: the lift crosses >= 2 levels
                    # while the range leaves later siblings behind in its own parent, so the
                    # remainder has to be re-wrapped after the lifted content
                    ev = ["lift-leaves-later-siblings-across-levels"] if lift_remainder_invalid(r, tgt) else []
                    perform(rec, name, O, doc, "lift", call, lambda tr: tr.lift(r, tgt), events=ev)
                for tn in wrap_types:
                    call = dict(fn="find_wrapping", schema=name, doc=dj, f=f, t=t, type=tn)
                    try:
                        w = structure.find_wrapping(r, S.nodes[tn])
                    except Exception as e:  # noqa: BLE001
                        rec.violation("find-wrapping-raises", f"{type(e).__name__}: {e}", call)
                        continue
                    if w is not None:
                        rec.count("approved wrap")
                        perform(rec, name, O, doc, "wrap", call, lambda tr: tr.wrap(r, w))
    return rec.result(
        rule="every position x split depths 1..3, join, join_point both directions, insert_point for every generatable type, drop_point for the slice pool; (sampled) block ranges x lift_target and find_wrapping for every wrapper type; an approval is followed by the edit; distinct by (schema, document, position / range)",
        bounds=dict(tier=tier, schemas=SCHEMAS),
    )
