"""C13 bounded stand-in: add / remove marks over ranges and node-level mark / attribute
edits against a per-token oracle."""
from __future__ import annotations

import json
import random

from spec import oracle as orc

from . import domain as D
from . import ops
from .c02 import splits_pair
from .common import Recorder, Timeout, time_limit

SCHEMAS = ["basic", "list", "marksx", "note"]


def strip(toks):
    return [(t[0], t[1]) if t[0] == "char" else (t[:3] if t[0] in ("leaf", "open") else t) for t in toks]


def parents(toks, O):
    """parent node-type name of every token"""
    out = []
    st = ["doc"]
    for t in toks:
        if t[0] == "close":
            st.pop()
            out.append(st[-1])
        else:
            out.append(st[-1])
            if t[0] == "open":
                st.append(t[1])
    return out


def marks_of(t):
    return list(t[2]) if t[0] == "char" else (list(t[3]) if t[0] in ("leaf", "open") else [])


def is_inline_tok(t, O):
    return t[0] == "char" or (t[0] in ("leaf", "open") and O.nodes[t[1]].inline)


def run(tier, seed, findings):
    from prosemirror.transform import Transform

    rec = Recorder("C13")
    rnd = random.Random(seed)
    for name in SCHEMAS:
        S, O = D.schema(name)
        O.top = O.top
        docs = [d for d in D.corpus(name, 10 if tier == "quick" else 50, seed) if d.content.size <= 26]
        marks = ops.marks_pool(S, O)
        for doc in docs:
            toks = orc.tokens(doc)
            par = parents(toks, O)
            # the top node's type name for parents[]: tokens() starts inside the doc
            par = [p if p != "doc" else O.top for p in par]
            size = doc.content.size
            ranges = [(f, t) for f in range(size + 1) for t in range(f, size + 1) if not (splits_pair(toks, f) or splits_pair(toks, t))]
            if len(ranges) > (30 if tier == "quick" else 200):
                rnd.shuffle(ranges)
                ranges = ranges[: (30 if tier == "quick" else 200)]
            for f, t in ranges:
                for m in marks:
                    mk = orc.mark_key(m)
                    call = dict(fn="add_mark", schema=name, doc=D.doc_json(doc), f=f, t=t, mark=mk)
                    rec.case(("add", name, orc.canon_json(D.doc_json(doc)), f, t, mk), nontrivial=t > f, sample=dict(schema=name, doc=str(doc), op="add_mark", f=f, t=t, mark=mk[0]))
                    try:
                        with time_limit(2):
                            tr = Transform(doc).add_mark(f, t, m)
                        nt = orc.tokens(tr.doc)
                        if strip(nt) != strip(toks):
                            rec.violation("add-mark-structure", "text or structure changed", call)
                        else:
                            for i, (a, b) in enumerate(zip(toks, nt)):
                                old = marks_of(a)
                                if f <= i < t and is_inline_tok(a, O) and O.allows(par[i], mk[0]):
                                    exp = O.spec_add(mk, old)
                                else:
                                    exp = old
                                if marks_of(b) != exp:
                                    rec.violation("add-mark-effect", f"token {i}: marks {marks_of(b)}, expected {exp}", call)
                                    break
                        why = O.valid(tr.doc)
                        if why:
                            rec.violation("add-mark-invalid", why, call)
                    except Timeout:
                        rec.violation("add-mark-hangs", "", call)
                    except Exception as e:  # noqa: BLE001
                        rec.violation("add-mark-raises", f"{type(e).__name__}: {e}", call)
                for what in marks + [None] + [S.marks[n] for n in list(S.marks)[:2]]:
                    desc = None if what is None else (orc.mark_key(what) if hasattr(what, "attrs") and hasattr(what, "type") else ("type", what.name))
                    call = dict(fn="remove_mark", schema=name, doc=D.doc_json(doc), f=f, t=t, what=desc)
                    rec.case(("rem", name, orc.canon_json(D.doc_json(doc)), f, t, orc.canon_json(desc)), nontrivial=t > f)
                    try:
                        with time_limit(2):
                            tr = Transform(doc).remove_mark(f, t, what)
                        nt = orc.tokens(tr.doc)
                        if strip(nt) != strip(toks):
                            rec.violation("remove-mark-structure", "text or structure changed", call)
                        else:
                            for i, (a, b) in enumerate(zip(toks, nt)):
                                old = marks_of(a)
                                if f <= i < t and is_inline_tok(a, O):
                                    if what is None:
                                        exp = []
                                    elif desc[0] == "type":
                                        exp = [x for x in old if x[0] != desc[1]]
                                    else:
                                        exp = [x for x in old if x != desc]
                                else:
                                    exp = old
                                if marks_of(b) != exp:
                                    rec.violation("remove-mark-effect", f"token {i}: marks {marks_of(b)}, expected {exp}", call)
                                    break
                    except Timeout:
                        rec.violation("remove-mark-hangs", "", call)
                    except Exception as e:  # noqa: BLE001
                        rec.violation("remove-mark-raises", f"{type(e).__name__}: {e}", call)
            # node-level edits
            root = orc.otree(doc)
            nodes = []

            def walk(n):
                for k in n.kids:
                    if k.text is None:
                        nodes.append(k)
                    walk(k)

            walk(root)
            for N in nodes:
                pname = N.parent.name
                for m in marks:
                    mk = orc.mark_key(m)
                    for fn in ("add_node_mark", "remove_node_mark"):
                        call = dict(fn=fn, schema=name, doc=D.doc_json(doc), pos=N.pos, mark=mk)
                        rec.case((fn, name, orc.canon_json(D.doc_json(doc)), N.pos, mk))
                        try:
                            tr = getattr(Transform(doc), fn)(N.pos, m)
                        except ValueError:
                            rec.count(f"{fn} rejected")
                            continue
                        except Exception as e:  # noqa: BLE001
                            rec.violation(f"{fn}-raises", f"{type(e).__name__}: {e}", call)
                            continue
                        nt = orc.tokens(tr.doc)
                        exp = list(toks)
                        old = marks_of(toks[N.pos])
                        newm = O.spec_add(mk, old) if fn == "add_node_mark" else [x for x in old if x != mk]
                        x = toks[N.pos]
                        exp[N.pos] = x[:3] + (tuple(newm),)
                        if nt != exp:
                            rec.violation(f"{fn}-effect", "something other than the addressed node's marks changed (or they are wrong)", call)
                for attr in json.loads(N.attrs):
                    val = 3 if attr in ("level", "order") else "q.png"
                    call = dict(fn="set_node_attribute", schema=name, doc=D.doc_json(doc), pos=N.pos, attr=attr, value=val)
                    rec.case(("attr", name, orc.canon_json(D.doc_json(doc)), N.pos, attr))
                    try:
                        tr = Transform(doc).set_node_attribute(N.pos, attr, val)
                    except Exception as e:  # noqa: BLE001
                        rec.violation("set-attr-raises", f"{type(e).__name__}: {e}", call)
                        continue
                    nt = orc.tokens(tr.doc)
                    exp = list(toks)
                    a = json.loads(N.attrs)
                    a[attr] = val
                    x = toks[N.pos]
                    exp[N.pos] = (x[0], x[1], orc.canon_json(a)) + x[3:]
                    if nt != exp:
                        rec.violation("set-attr-effect", "something other than the addressed attribute changed", call)
                # retyping keeps the children the new type can hold
                if N.node.is_textblock:
                    for tn, ont in O.nodes.items():
                        if not (ont.inline_content and not ont.inline) or tn == N.name:
                            continue
                        call = dict(fn="set_block_type", schema=name, doc=D.doc_json(doc), pos=N.pos, type=tn)
                        rec.case(("sbt", name, orc.canon_json(D.doc_json(doc)), N.pos, tn))
                        try:
                            with time_limit(2):
                                tr = Transform(doc).set_block_type(N.pos + 1, N.pos + 1, S.nodes[tn], None)
                        except Timeout:
                            rec.violation("set-block-type-hangs", "", call)
                            continue
                        except Exception as e:  # noqa: BLE001
                            rec.violation("set-block-type-raises", f"{type(e).__name__}: {e}", call)
                            continue
                        why = O.valid(tr.doc)
                        if why:
                            rec.violation("set-block-type-invalid", why, call)
                            continue
                        nt = orc.tokens(tr.doc)
                        if nt[: N.pos] != toks[: N.pos] or nt[len(nt) - (len(toks) - N.pos - N.size):] != toks[N.pos + N.size:]:
                            rec.violation("set-block-type-outside", "content outside the retyped block changed", call)
                        oldc = [x[1] for x in toks[N.pos: N.pos + N.size] if x[0] == "char"]
                        newc = [x[1] for x in nt[N.pos: len(nt) - (len(toks) - N.pos - N.size)] if x[0] == "char"]
                        oldc2 = [32 if c in (10, 13) else c for c in oldc]
                        if not orc.is_subsequence(newc, oldc2) and not orc.is_subsequence(newc, oldc):
                            rec.violation("set-block-type-children", "children were not kept", call)
    return rec.result(
        rule="add_mark / remove_mark (mark, type, all) over every (sampled) range x every mark of the schema incl. the exclusion variant; node marks, attributes and block retyping at every node; per-token mark oracle; distinct by (op, schema, document JSON, range, mark)",
        bounds=dict(tier=tier, schemas=SCHEMAS),
    )
