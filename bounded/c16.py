"""C16 bounded stand-in: a merged step is equivalent to the two steps it replaces."""
from __future__ import annotations

import random

from spec import oracle as orc

from . import domain as D
from . import ops
from .common import Recorder
from .hist import HIST_SCHEMAS, step_json


def run(tier, seed, findings):
    from prosemirror.transform import AddMarkStep, RemoveMarkStep, ReplaceStep

    rec = Recorder("C16")
    rnd = random.Random(seed)
    for name in HIST_SCHEMAS:
        S, O = D.schema(name)
        docs = [d for d in D.corpus(name, 8 if tier == "quick" else 30, seed) if d.content.size <= 16]
        pool = [s for s in D.slice_pool(name, docs, rnd, 40) if ops.slice_ok(O, s)]
        marks = ops.marks_pool(S, O)
        for doc in docs:
            size = doc.content.size
            firsts = []
            for _ in range(40 if tier == "quick" else 200):
                f, t = sorted((rnd.randint(0, size), rnd.randint(0, size)))
                k = rnd.random()
                if k < 0.6:
                    firsts.append(ReplaceStep(f, t, rnd.choice(pool)))
                elif k < 0.8:
                    firsts.append(AddMarkStep(f, t, rnd.choice(marks)))
                else:
                    firsts.append(RemoveMarkStep(f, t, rnd.choice(marks)))
            for s1 in firsts:
                try:
                    r1 = s1.apply(doc)
                except Exception:  # noqa: BLE001
                    continue
                if r1.failed:
                    continue
                d1 = r1.doc
                size1 = d1.content.size
                seconds = []
                for _ in range(12 if tier == "quick" else 40):
                    # bias towards adjacent / overlapping steps, where merging happens
                    if isinstance(s1, ReplaceStep):
                        end1 = s1.from_ + s1.slice.size
                        f = rnd.choice([end1, s1.from_, rnd.randint(0, size1)])
                        f = min(max(f, 0), size1)
                        t = min(size1, f + rnd.randint(0, 2)) if rnd.random() < 0.7 else f
                        if rnd.random() < 0.4:
                            t = s1.from_ if s1.from_ >= f else t
                            f, t = sorted((min(f, size1), min(t, size1)))
                        seconds.append(ReplaceStep(f, t, rnd.choice(pool)))
                    else:
                        f = min(size1, max(0, rnd.choice([s1.from_, s1.to, s1.from_ - 1, s1.to + 1, rnd.randint(0, size1)])))
                        t = min(size1, f + rnd.randint(0, 3))
                        cls = type(s1)
                        seconds.append(cls(f, t, s1.mark if rnd.random() < 0.8 else rnd.choice(marks)))
                for s2 in seconds:
                    try:
                        r2 = s2.apply(d1)
                    except Exception:  # noqa: BLE001
                        continue
                    if r2.failed:
                        continue
                    try:
                        m = s1.merge(s2)
                    except Exception as e:  # noqa: BLE001
                        rec.violation("merge-raises", f"{type(e).__name__}: {e}", dict(fn="merge", schema=name, doc=D.doc_json(doc), a=step_json(s1), b=step_json(s2)))
                        continue
                    call = dict(fn="merge", schema=name, doc=D.doc_json(doc), a=step_json(s1), b=step_json(s2))
                    rec.case(("merge", name, orc.canon_json(call)), nontrivial=m is not None, sample=dict(schema=name, doc=str(doc), a=step_json(s1), b=step_json(s2), merged=m is not None))
                    if m is None:
                        continue
                    rec.count("merged")
                    try:
                        rm = m.apply(doc)
                    except Exception as e:  # noqa: BLE001
                        rec.violation("merged-raises", f"{type(e).__name__}: {e}", call)
                        continue
                    if rm.failed:
                        rec.violation("merged-fails", f"the merged step fails where the two steps applied: {rm.failed}", call)
                        continue
                    if not rm.doc.eq(r2.doc) or orc.tokens(rm.doc) != orc.tokens(r2.doc):
                        rec.violation("merged-differs", "merged step gives a different document", call)
                    if rm.doc.content.size - size != r2.doc.content.size - size:
                        rec.violation("merged-size", "size delta differs", call)
    return rec.result(
        rule="ordered pairs (first applies to the document, second to the result), biased to adjacent / overlapping ranges: replace x replace (open and closed payload-valid slices), add-mark x add-mark, remove-mark x remove-mark; non-trivial = the pair merges; distinct by (schema, document, both step JSONs)",
        bounds=dict(tier=tier, schemas=HIST_SCHEMAS),
    )
