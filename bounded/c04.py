"""C04 bounded stand-in: recorded steps replay and undo exactly; bookkeeping stays aligned."""
from __future__ import annotations

import random

from spec import oracle as orc

from . import domain as D
from . import ops
from .common import Recorder
from .hist import HIST_SCHEMAS, histories, step_json


def run(tier, seed, findings):
    from prosemirror.transform import AddMarkStep, RemoveMarkStep, ReplaceAroundStep, ReplaceStep

    rec = Recorder("C04")
    for name in HIST_SCHEMAS:
        S, O = D.schema(name)
        for doc, log, tr in histories(name, tier, seed):
            call = dict(fn="history", schema=name, doc=D.doc_json(doc), ops=[l["desc"] for l in log], steps=[step_json(s) for s in tr.steps])
            rec.case(("hist", name, orc.canon_json(call)), nontrivial=len(tr.steps) > 0, sample=dict(schema=name, doc=str(doc), ops=[l["desc"] + " -> " + l["outcome"] for l in log]))
            for l in log:
                if l["outcome"].startswith("error") or l["outcome"] == "hang":
                    rec.count("operation failed internally (C11/C12/C13's subject): " + l["kind"])
            # alignment
            if not (len(tr.steps) == len(tr.docs) == len(tr.mapping.maps)):
                rec.violation("bookkeeping", f"steps/docs/maps lengths {len(tr.steps)},{len(tr.docs)},{len(tr.mapping.maps)}", call)
                continue
            if tr.steps and tr.before is not doc:
                rec.violation("bookkeeping", "before is not the starting document", call)
            # replay
            cur = doc
            ok = True
            for i, st in enumerate(tr.steps):
                if not cur.eq(tr.docs[i]):
                    rec.violation("replay-docs", f"recorded intermediate document {i} differs from the replay", call)
                    ok = False
                    break
                try:
                    r = st.apply(cur)
                except Exception as e:  # noqa: BLE001
                    rec.violation("replay-raises", f"step {i}: {type(e).__name__}: {e}", call)
                    ok = False
                    break
                if r.failed:
                    rec.violation("replay-fails", f"step {i} fails on replay: {r.failed}", call)
                    ok = False
                    break
                if orc.canon_json(tr.mapping.maps[i].ranges) != orc.canon_json(st.get_map().ranges):
                    rec.violation("bookkeeping", f"recorded map {i} is not the step's map", call)
                cur = r.doc
            if ok and not cur.eq(tr.doc):
                rec.violation("replay-final", "replaying the steps does not reproduce the final document", call)
            if not ok:
                continue
            # undo
            cur = tr.doc
            for i in range(len(tr.steps) - 1, -1, -1):
                try:
                    inv = tr.steps[i].invert(tr.docs[i])
                    r = inv.apply(cur)
                except Exception as e:  # noqa: BLE001
                    rec.violation("undo-raises", f"inverting/applying step {i}: {type(e).__name__}: {e}", call)
                    cur = None
                    break
                if r.failed:
                    rec.violation("undo-fails", f"inverse of step {i} fails: {r.failed}", call)
                    cur = None
                    break
                cur = r.doc
                if not cur.eq(tr.docs[i]):
                    rec.violation("undo-intermediate", f"undoing step {i} does not restore document {i}", call)
                    cur = None
                    break
                # the inverse's map is the inverse of the map
                st = tr.steps[i]
                if isinstance(st, (ReplaceStep, ReplaceAroundStep)):
                    im, mi = inv.get_map(), st.get_map().invert()
                    size = tr.docs[i + 1].content.size if i + 1 < len(tr.docs) else tr.doc.content.size
                    for pos in range(size + 1):
                        for assoc in (-1, 1):
                            a, b = im.map_result(pos, assoc), mi.map_result(pos, assoc)
                            if (a.pos, a.deleted) != (b.pos, b.deleted):
                                rec.violation("invert-map", f"inverted step's map sends {pos},{assoc} to {a.pos}, the inverted map to {b.pos}", call)
                                break
            if cur is not None and orc.canon_json(D.doc_json(cur)) != orc.canon_json(D.doc_json(doc)):
                rec.violation("undo-final", "undoing all steps does not restore the starting document", call)
            # a rejected operation leaves the arrays untouched
            for l in log:
                pass
        # every mark operation over whole blocks and sampled ranges (multi-step plans whose
        # inverses must be exact), checked like a one-operation history
        from prosemirror.transform import Transform

        rnd2 = random.Random(seed + 5)
        # adjacent inline nodes carrying *different* marks of one attribute-carrying type (two links with
        # different targets side by side): a third mark of that type displaces both in one operation
        shaped = []
        extra_marks = []
        for mname, mt in O.marks.items():
            if not mt.attrs or "paragraph" not in S.nodes:
                continue
            v = [D.mk_mark(S, mname, {k: val for k in mt.attrs}) for val in ("foo", "bar", "qux")]
            extra_marks.append(v[2])
            for kids in ([D.mk_text(S, "foo", [v[0]]), D.mk_text(S, "bar", [v[1]]), D.mk_text(S, " baz")],
                         [D.mk_text(S, "a"), D.mk_text(S, "b", [v[0]]), D.mk_text(S, "c", [v[1]]), D.mk_text(S, "d", [v[0]])],
                         [D.mk_text(S, "x", [v[1]]), D.mk_text(S, "y", [v[0]])]):
                try:
                    dd = D.mk_node(S, "doc", [D.mk_node(S, "paragraph", kids)])
                    dd.check()
                    shaped.append(dd)
                except Exception:  # noqa: BLE001
                    pass
        for doc in shaped + [d for d in D.corpus(name, 8 if tier == "quick" else 30, seed) if d.content.size <= 30]:
            size = doc.content.size
            rngs = [(0, size)] + [tuple(sorted((rnd2.randint(0, size), rnd2.randint(0, size)))) for _ in range(4 if tier == "quick" else 12)]
            for f, t in rngs:
                for m in ops.marks_pool(S, O) + extra_marks:
                    for opn in ("add_mark", "remove_mark"):
                        tr = Transform(doc)
                        try:
                            getattr(tr, opn)(f, t, m)
                        except Exception:  # noqa: BLE001
                            continue  # C13's subject
                        if not tr.steps:
                            continue
                        call = dict(fn=opn, schema=name, doc=D.doc_json(doc), f=f, t=t, mark=orc.mark_key(m), steps=[step_json(s) for s in tr.steps])
                        rec.case((opn, name, orc.canon_json(call)), sample=dict(schema=name, doc=str(doc), op=f"{opn}({f},{t},{m.type.name})"))
                        cur = tr.doc
                        okk = True
                        for i in range(len(tr.steps) - 1, -1, -1):
                            try:
                                r = tr.steps[i].invert(tr.docs[i]).apply(cur)
                            except Exception as e:  # noqa: BLE001
                                rec.violation("undo-raises", f"{type(e).__name__}: {e}", call)
                                okk = False
                                break
                            if r.failed:
                                rec.violation("undo-fails", r.failed, call)
                                okk = False
                                break
                            cur = r.doc
                        if okk and orc.canon_json(D.doc_json(cur)) != orc.canon_json(D.doc_json(doc)):
                            rec.violation("undo-final", f"undoing {opn} does not restore the starting document", call)
        # single-step undo for primitive replace / attr / node-mark steps under this schema
        rnd = random.Random(seed)
        docs = [d for d in D.corpus(name, 8 if tier == "quick" else 30, seed) if d.content.size <= 20]
        pool = D.slice_pool(name, docs, rnd, 40)
        for doc in docs:
            for desc, step in ops.primitive_steps(name, doc, pool, rnd, 40 if tier == "quick" else 200):
                # the single-step clause names replace, attribute, document-attribute and node-mark
                # steps; replace-around steps are exercised through the histories above
                if isinstance(step, (AddMarkStep, RemoveMarkStep, ReplaceAroundStep)):
                    continue
                from .c02 import splits_pair

                tk = orc.tokens(doc)
                if any(splits_pair(tk, getattr(step, a)) for a in ("from_", "to", "pos") if hasattr(step, a)):
                    continue
                if not ops.step_positions_ok(doc, step) or not ops.step_payload_ok(name, doc, step):
                    continue
                if type(step).__name__ == "AttrStep":
                    n = doc.node_at(step.pos)
                    if n is None or step.attr not in n.attrs:
                        continue
                if type(step).__name__ == "DocAttrStep" and step.attr not in doc.attrs:
                    continue
                try:
                    r = step.apply(doc)
                except ValueError:
                    continue
                except Exception:  # noqa: BLE001
                    continue  # C01's subject
                if r.failed:
                    continue
                call = dict(fn="undo", schema=name, doc=D.doc_json(doc), step=step_json(step))
                rec.case(("undo", name, orc.canon_json(call)), sample=dict(schema=name, doc=str(doc), step=desc))
                try:
                    inv = step.invert(doc)
                    r2 = inv.apply(r.doc)
                except Exception as e:  # noqa: BLE001
                    rec.violation("single-undo-raises", f"{type(e).__name__}: {e}", call)
                    continue
                if r2.failed or orc.canon_json(D.doc_json(r2.doc)) != orc.canon_json(D.doc_json(doc)) or not r2.doc.eq(doc):
                    rec.violation("single-undo", f"inverse does not restore the document ({r2.failed})", call)
    return rec.result(
        rule="histories of <= L random transform operations (replace family, marks, split/join/lift/wrap, retyping, attributes, node marks; structure operations only when the helper approves) on corpus + generated documents; replay, undo, alignment, inverse maps; plus single primitive replace / replace-around / attr / doc-attr / node-mark steps that apply; non-trivial = at least one step recorded; distinct by (schema, document, operations)",
        bounds=dict(tier=tier, schemas=HIST_SCHEMAS, length=4 if tier == "quick" else 6),
    )
