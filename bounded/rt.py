"""Runtime evaluation of the sidecar contracts (tier B and replay).  Runs under
/venv/bin/python; never imports z3.  The contract text is the same text pyvc proves."""
from __future__ import annotations

import ast
import copy
import importlib
import importlib.util
import inspect
import os
import sys

ROOT = os.path.dirname(os.path.dirname(os.path.abspath(__file__)))
if ROOT not in sys.path:
    sys.path.insert(0, ROOT)

from pyvc import api  # noqa: E402
from spec import native  # noqa: E402

SPEC_ENV: dict = {}
LOADED: list = []


class ContractViolation(Exception):
    def __init__(self, key, kind, clause, detail=""):
        super().__init__(f"{key}: {kind}: {clause} {detail}")
        self.key, self.kind, self.clause, self.detail = key, kind, clause, detail


class ShapeMismatch(Exception):
    """the call's record argument does not have the key set this (aliased) contract is about"""


class PreconditionFailed(Exception):
    def __init__(self, key, clause):
        super().__init__(f"{key}: requires {clause}")
        self.key, self.clause = key, clause


def load(mods):
    for m in mods:
        if m not in LOADED:
            importlib.import_module(m)
            LOADED.append(m)
    SPEC_ENV.update({k: getattr(native, k) for k in dir(native) if not k.startswith("_")})
    mods_ = []
    for path in api.SPEC_FILES:
        name = "spec." + os.path.splitext(os.path.basename(path))[0]
        mod = importlib.import_module(name)
        mods_.append(mod)
        for k in dir(mod):
            if not k.startswith("_"):
                SPEC_ENV[k] = getattr(mod, k)
    # the repo classes the clauses name (Fragment.empty, Mark.none, ...)
    for cname, info in api.CLASSES.items():
        try:
            SPEC_ENV.setdefault(cname, getattr(importlib.import_module(info.file[:-3].replace("/", ".")), cname))
        except Exception:  # noqa: BLE001
            pass
    # spec functions call each other across spec files: share the vocabulary
    for mod in mods_:
        for k, v in SPEC_ENV.items():
            if not hasattr(mod, k):
                setattr(mod, k, v)


class _OldLift(ast.NodeTransformer):
    def __init__(self):
        self.olds = []

    def visit_Call(self, node):
        if isinstance(node.func, ast.Name) and node.func.id == "implies" and len(node.args) == 2:
            # lazy implication: the consequent is only evaluated when the antecedent holds
            a, b = self.visit(node.args[0]), self.visit(node.args[1])
            return ast.copy_location(ast.BoolOp(op=ast.Or(), values=[ast.UnaryOp(op=ast.Not(), operand=a), b]), node)
        if isinstance(node.func, ast.Name) and node.func.id == "old" and len(node.args) == 1:
            self.olds.append(node.args[0])
            return ast.copy_location(ast.Name(id=f"__old{len(self.olds) - 1}", ctx=ast.Load()), node)
        return self.generic_visit(node)


_COMPILED: dict = {}


def compile_clause(text):
    if text not in _COMPILED:
        tree = api._parse_spec(text)
        lift = _OldLift()
        tree = lift.visit(tree)
        expr = ast.Expression(tree)
        ast.fix_missing_locations(expr)
        code = compile(expr, f"<clause {text[:40]}>", "eval")
        olds = []
        for o in lift.olds:
            e = ast.Expression(o)
            ast.fix_missing_locations(e)
            olds.append(compile(e, "<old>", "eval"))
        _COMPILED[text] = (code, olds)
    return _COMPILED[text]


def snap(v):
    if isinstance(v, (list, dict, set)):
        return copy.copy(v)
    return v


IN_SPEC = [0]  # > 0 while a contract clause is being evaluated: wrappers are transparent then


def ev(code, env):
    IN_SPEC[0] += 1
    try:
        return eval(code, {"__builtins__": __builtins__, **SPEC_ENV, **env})
    finally:
        IN_SPEC[0] -= 1


FN_OWNER: dict = {}


def resolve(key):
    """-> (owner object, attribute name, raw attribute, function)"""
    c = api.CONTRACTS[key]
    modname = c.file[:-3].replace("/", ".")
    mod = importlib.import_module(modname)
    parts = c.qualname.split(".")
    owner = mod
    for p in parts[:-1]:
        owner = getattr(owner, p)
    raw = owner.__dict__[parts[-1]] if isinstance(owner, type) else getattr(owner, parts[-1])
    fn = raw
    if isinstance(raw, (classmethod, staticmethod)):
        fn = raw.__func__
    elif isinstance(raw, property):
        fn = raw.fget
    FN_OWNER[fn] = owner
    return owner, parts[-1], raw, fn


def check_call(key, fn, args, kwargs, strict_pre=True):
    """Call fn(*args) under the contract `key`.  Returns the result (or re-raises the
    function's own exception when the contract allows it)."""
    c = api.CONTRACTS[key]
    sig = inspect.signature(fn)
    pnames = list(sig.parameters)
    if pnames and pnames[0] == "cls" and "cls" not in c.params and len(args) == len(c.params):
        args = [FN_OWNER.get(fn)] + list(args)  # classmethod called through its function
    ba = sig.bind(*args, **kwargs)
    ba.apply_defaults()
    env = dict(ba.arguments)
    env.pop("cls", None)
    trace: list = []
    call_args = dict(ba.arguments)
    for n, k in c.params.items():
        if k == "func" and callable(env.get(n)):
            orig = env[n]

            def wrapped(*a, __orig=orig):
                trace.extend(a)
                return __orig(*a)

            call_args[n] = wrapped
    env["trace"] = trace
    for n_, k_ in c.params.items():
        # a record kind is a static precondition on the key set (one aliased contract per shape)
        if k_.startswith("dict{") and n_ in env:
            want, depth_, cur_ = set(), 0, ""
            for ch in k_[5:-1] + ",":
                depth_ += ch in "[{("
                depth_ -= ch in "]})"
                if ch == "," and depth_ == 0:
                    want.add(cur_.split(":", 1)[0].strip())
                    cur_ = ""
                else:
                    cur_ += ch
            if not isinstance(env[n_], dict) or set(env[n_].keys()) != want:
                raise ShapeMismatch(key)
    for r in c.requires:
        code, _ = compile_clause(r)
        if not ev(code, env):
            raise PreconditionFailed(key, r)
    raise_conds = {exc: ev(compile_clause(cond)[0], env) for exc, cond in c.raises.items()}
    may_conds = {exc: ev(compile_clause(cond)[0], env) for exc, cond in c.may_raise.items()}
    # snapshots for old(...)
    case_data = []
    for case in c.cases:
        when = ev(compile_clause(case["when"])[0], env)
        ens = []
        if when:
            # naming clauses are assumed by the deductive tier; here they are evaluated like any other post-condition
            for clause in list(case.get("ensures", [])) + list(getattr(c, "defines", ())):
                code, olds = compile_clause(clause)
                ens.append((clause, code, [snap(ev(o, env)) for o in olds]))
        case_data.append((when, ens))
    entry_env = dict(env)
    entry_env["trace"] = []
    try:
        result = fn(*call_args.values()) if not kwargs else fn(**call_args)
    except Exception as e:  # noqa: BLE001
        name = type(e).__name__
        ok = False
        for exc, cond in may_conds.items():
            if cond and any(t.__name__ == exc for t in type(e).__mro__):
                ok = True
        for exc, cond in raise_conds.items():
            if any(t.__name__ == exc for t in type(e).__mro__):
                if cond:
                    ok = True
                elif not ok:
                    raise ContractViolation(key, "raises-when-not-allowed", f"{exc} only when {c.raises[exc]}", f"got {name}: {e}") from e
        if not ok:
            raise ContractViolation(key, "unexpected-exception", name, str(e)) from e
        raise
    for exc, cond in raise_conds.items():
        if cond:
            raise ContractViolation(key, "must-raise", f"{exc} when {c.raises[exc]}", f"returned {result!r}")
    for when, ens in case_data:
        if not when:
            continue
        for clause, code, olds in ens:
            e2 = dict(entry_env)
            e2["trace"] = trace
            e2["result"] = result
            for i, o in enumerate(olds):
                e2[f"__old{i}"] = o
            try:
                ok = ev(code, e2)
            except Exception as ex:  # noqa: BLE001
                raise ContractViolation(key, "ensures-not-evaluable", clause, f"{type(ex).__name__}: {ex}") from ex
            if not ok:
                raise ContractViolation(key, "ensures", clause, f"result={result!r}")
    return result


HITS: dict = {}
CHECKED: dict = {}
SAMPLE = [0, 1]  # (check every call up to this count, then every k-th); 0 = check every call
_INSTALLED: dict = {}


def install(keys, on_violation=None):
    """Wrap the real functions in place.  A violated requires inside the library is a
    callee-precondition failure of the caller and is reported as such."""
    for key in keys:
        if key in _INSTALLED:
            continue
        owner, name, raw, fn = resolve(key)

        def make(key=key, fn=fn):
            def wrapper(*a, **kw):
                if IN_SPEC[0]:
                    return fn(*a, **kw)  # called from inside a specification clause
                n_ = HITS[key] = HITS.get(key, 0) + 1
                if SAMPLE[0] and n_ > SAMPLE[0] and n_ % SAMPLE[1]:
                    return fn(*a, **kw)  # hot function: every SAMPLE[1]-th call is checked after the first SAMPLE[0]
                CHECKED[key] = CHECKED.get(key, 0) + 1
                try:
                    return check_call(key, fn, a, kw)
                except ShapeMismatch:
                    CHECKED[key] = CHECKED.get(key, 0) - 1
                    return fn(*a, **kw)
                except PreconditionFailed as p:
                    if on_violation:
                        on_violation(ContractViolation(key, "callee-precondition", p.clause))
                    return fn(*a, **kw)
                except ContractViolation as v:
                    if on_violation:
                        on_violation(v)
                        if v.__cause__ is not None and v.kind in ("unexpected-exception", "raises-when-not-allowed"):
                            raise v.__cause__
                        return fn(*a, **kw)
                    raise

            wrapper.__wrapped__ = fn
            wrapper.__name__ = getattr(fn, "__name__", "wrapped")
            return wrapper

        w = make()
        if isinstance(raw, classmethod):
            new = classmethod(w)
        elif isinstance(raw, staticmethod):
            new = staticmethod(w)
        elif isinstance(raw, property):
            new = property(w)
        else:
            new = w
        setattr(owner, name, new)
        _INSTALLED[key] = (owner, name, raw)
        # early-bound references in other modules (from x import f)
        if not isinstance(owner, type):
            for m in list(sys.modules.values()):
                if m is None or not getattr(m, "__name__", "").startswith("prosemirror"):
                    continue
                for k, v in list(vars(m).items()):
                    if v is raw and m is not owner:
                        setattr(m, k, new)


def uninstall():
    for key, (owner, name, raw) in list(_INSTALLED.items()):
        setattr(owner, name, raw)
        del _INSTALLED[key]


# ---------------------------------------------------------------- reification of solver models
_IDS: dict = {}


def reify(v, ids=None):
    ids = {} if ids is None else ids
    if isinstance(v, dict) and "__class__" in v:
        if v.get("__id__") in ids:
            return ids[v["__id__"]]
        info = api.CLASSES[v["__class__"]]
        mod = importlib.import_module(info.file[:-3].replace("/", "."))
        cls = getattr(mod, v["__class__"])
        o = cls.__new__(cls)
        ids[v.get("__id__")] = o
        for k, x in v.items():
            if k.startswith("__"):
                continue
            try:
                setattr(o, k, reify(x, ids))
            except AttributeError:
                pass
        return o
    if isinstance(v, dict) and "__val__" in v:
        return {"v": v["__val__"]}
    if isinstance(v, list):
        return [reify(x, ids) for x in v]
    if isinstance(v, dict):
        return {k: reify(x, ids) for k, x in v.items()}
    return v
