"""C07 bounded stand-in: validity predicates against the schema's definition of validity."""
from __future__ import annotations

import itertools
import random

from spec import oracle as orc

from . import domain as D
from . import ops
from .common import Recorder

SCHEMAS = ["basic", "list", "strict", "title", "table", "marksx"]


def all_nodes(doc):
    out = []

    def walk(n):
        if n.type.name != "text":
            out.append(n)
            for k in n.content.content:
                walk(k)

    walk(doc)
    return out


def break_doc(S, O, doc, rnd):
    """slightly broken variants: child removed / duplicated, marks reordered, disallowed mark"""
    from prosemirror.model import Fragment, Node

    js = D.doc_json(doc)
    variants = []

    def paths(j, p=()):
        yield p, j
        for i, c in enumerate(j.get("c", [])):
            yield from paths(c, p + (i,))

    allp = list(paths(js))
    for _ in range(4):
        import copy as _c

        j2 = _c.deepcopy(js)
        p, node = rnd.choice(list(paths(j2)))
        kind = rnd.choice(["drop", "dup", "marks", "badmark", "swap"])
        if kind == "drop" and node.get("c"):
            node["c"].pop(rnd.randrange(len(node["c"])))
        elif kind == "dup" and node.get("c"):
            node["c"].append(_c.deepcopy(node["c"][0]))
        elif kind == "swap" and len(node.get("c", [])) >= 2:
            node["c"].reverse()
        elif kind == "marks" and node.get("m") and len(node["m"]) >= 2:
            node["m"].reverse()
        elif kind == "badmark" and node["t"] != "doc":
            node["m"] = [[rnd.choice(list(O.marks)), {}]] + [m for m in node.get("m", [])]
        else:
            continue
        try:
            variants.append(from_json2(S, j2))
        except Exception:  # noqa: BLE001
            pass
    return variants


def from_json2(S, js):
    marks = [D.mk_mark(S, m[0], m[1]) for m in js.get("m", [])]
    if js["t"] == "text":
        return D.mk_text(S, js["x"], marks)
    return D.mk_node(S, js["t"], [from_json2(S, c) for c in js.get("c", [])], js.get("a"), marks)


def run(tier, seed, findings):
    from prosemirror.model import Fragment

    rec = Recorder("C07")
    rnd = random.Random(seed)
    for name in SCHEMAS:
        S, O = D.schema(name)
        docs = [d for d in D.corpus(name, 10 if tier == "quick" else 40, seed) if d.content.size <= 30]
        # pool of child nodes of every type (with marks) to build replacement fragments from
        kids = []
        for d in docs:
            for n in all_nodes(d):
                kids.extend(n.content.content)
        rnd.shuffle(kids)
        kids = kids[:60]
        for doc in docs:
            # whole-document check
            for cand in [doc] + break_doc(S, O, doc, rnd):
                call = dict(fn="check", schema=name, doc=D.doc_json(cand))
                rec.case(("check", name, orc.canon_json(call)), sample=dict(schema=name, doc=str(cand)))
                exp = O.valid(cand)
                try:
                    cand.check()
                    got = None
                except ValueError as e:
                    got = str(e)
                except Exception as e:  # noqa: BLE001
                    rec.violation("check-raises", f"{type(e).__name__}: {e}", call)
                    continue
                if (got is None) != (exp is None):
                    rec.violation("check-disagrees", f"Node.check says {'valid' if got is None else got}, the schema's definition says {'valid' if exp is None else exp}", call)
            for node in all_nodes(doc):
                nt = O.nodes[node.type.name]
                names = [k.type.name for k in node.content.content]
                n = len(names)
                # valid_content on this node's content and on variations
                for frag_kids in [list(node.content.content)] + [rnd.sample(kids, min(len(kids), rnd.randint(0, 3))) for _ in range(3)]:
                    frag = Fragment(list(frag_kids), sum(orc.node_size(k) for k in frag_kids))
                    exp = nt.dfa.accepts([k.type.name for k in frag_kids]) and all(O.allows(nt.name, m.type.name) for k in frag_kids for m in k.marks)
                    call = dict(fn="valid_content", schema=name, type=nt.name, content=D.frag_json(frag))
                    rec.case(("vc", name, orc.canon_json(call)))
                    try:
                        got = node.type.valid_content(frag)
                        if bool(got) != bool(exp):
                            rec.violation("valid-content", f"{got} expected {exp}", call)
                    except Exception as e:  # noqa: BLE001
                        rec.violation("valid-content-raises", f"{type(e).__name__}: {e}", call)
                    # checked constructor fails exactly when the content is invalid
                    try:
                        node.type.create_checked(dict(node.attrs), frag)
                        ok = True
                    except ValueError:
                        ok = False
                    except Exception as e:  # noqa: BLE001
                        rec.violation("create-checked-raises", f"{type(e).__name__}: {e}", call)
                        continue
                    if ok != bool(exp):
                        rec.violation("create-checked", f"create_checked {'accepted' if ok else 'rejected'} content that is {'valid' if exp else 'invalid'}", call)
                # can_replace for all index ranges and replacement sub-ranges
                repl = rnd.sample(kids, min(len(kids), 3))
                rfrag = Fragment(list(repl), sum(orc.node_size(k) for k in repl))
                rn = [k.type.name for k in repl]
                for f in range(n + 1):
                    for t in range(f, n + 1):
                        for st in range(len(repl) + 1):
                            for en in range(st, len(repl) + 1):
                                exp = nt.dfa.accepts(names[:f] + rn[st:en] + names[t:]) and all(O.allows(nt.name, m.type.name) for k in repl[st:en] for m in k.marks)
                                call = dict(fn="can_replace", schema=name, node=D.doc_json(node), f=f, t=t, repl=D.frag_json(rfrag), start=st, end=en)
                                rec.case(("cr", name, orc.canon_json(call)))
                                try:
                                    got = node.can_replace(f, t, rfrag, st, en)
                                    if bool(got) != bool(exp):
                                        rec.violation("can-replace", f"{got} expected {exp}", call)
                                except Exception as e:  # noqa: BLE001
                                    rec.violation("can-replace-raises", f"{type(e).__name__}: {e}", call)
                        for tn in list(O.nodes)[:: (2 if tier == "quick" else 1)]:
                            ms = rnd.choice([[], None, [D.mk_mark(S, rnd.choice(list(O.marks)))]])
                            exp = nt.dfa.accepts(names[:f] + [tn] + names[t:]) and all(O.allows(nt.name, m.type.name) for m in (ms or []))
                            call = dict(fn="can_replace_with", schema=name, node=D.doc_json(node), f=f, t=t, type=tn, marks=[orc.mark_key(m) for m in (ms or [])])
                            rec.case(("crw", name, orc.canon_json(call)))
                            try:
                                got = node.can_replace_with(f, t, S.nodes[tn], ms)
                                if bool(got) != bool(exp):
                                    rec.violation("can-replace-with", f"{got} expected {exp}", call)
                            except Exception as e:  # noqa: BLE001
                                rec.violation("can-replace-with-raises", f"{type(e).__name__}: {e}", call)
            nodes = [x for x in all_nodes(doc) if x.type.name != O.top]
            for a in nodes[:8]:
                for b in nodes[:8]:
                    na, nb = O.nodes[a.type.name], O.nodes[b.type.name]
                    an = [k.type.name for k in a.content.content]
                    bn = [k.type.name for k in b.content.content]
                    if bn:
                        exp = na.dfa.accepts(an + bn) and all(O.allows(na.name, m.type.name) for k in b.content.content for m in k.marks)
                    else:
                        continue  # empty other: the library falls back to a type-compatibility heuristic
                    call = dict(fn="can_append", schema=name, a=D.doc_json(a), b=D.doc_json(b))
                    rec.case(("ca", name, orc.canon_json(call)))
                    try:
                        got = a.can_append(b)
                        if bool(got) != bool(exp):
                            rec.violation("can-append", f"{got} expected {exp}", call)
                    except Exception as e:  # noqa: BLE001
                        rec.violation("can-append-raises", f"{type(e).__name__}: {e}", call)
    return rec.result(
        rule="Node.check on documents and broken variants; valid_content / create_checked on real and random child sequences; can_replace for ALL index ranges 0<=from<=to<=n and all sub-ranges of a replacement fragment; can_replace_with for candidate types and mark sets; can_append; expected value computed from the schema spec strings by an independent regex matcher; distinct by call JSON",
        bounds=dict(tier=tier, schemas=SCHEMAS),
    )
