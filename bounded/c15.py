"""C15 bounded stand-in (nothing deductive is claimed): content filling and wrapper search are
sound and complete, against BFS oracles over the independent derivative automata."""
from __future__ import annotations

import itertools
import random

from spec import oracle as orc
from spec import regex as rx

from . import domain as D
from .common import Recorder, Timeout, time_limit

SCHEMAS = ["basic", "list", "strict", "title", "table"]


def random_specs(seed, n=12):
    """seeded random well-founded schemas: leaves, containers over random content expressions"""
    import random as _r

    from prosemirror.model import Schema

    rnd = _r.Random(seed * 101 + 7)
    out = {}
    tries = 0
    while len(out) < n and tries < 400:
        tries += 1
        k = rnd.randint(3, 5)
        conts = [f"n{i}" for i in range(k)]
        leaves = ["l0", "l1"]
        nodes = {"text": {"group": "inline"}, "l0": {}, "l1": {"attrs": {"x": {}}} if rnd.random() < 0.5 else {}, "tb": {"content": "text*"}}
        names = conts + leaves + ["tb"]

        def expr(level=-1):
            # layered (well-founded): a container only mentions containers of a higher index
            allowed = [x for x in names if not x.startswith("n") or int(x[1:]) > level]
            parts = []
            for _ in range(rnd.randint(1, 3)):
                a = rnd.choice(allowed)
                if rnd.random() < 0.35:
                    a = f"({a} | {rnd.choice(allowed)})"
                a += rnd.choice(["", "", "+", "*", "?", "{2}"])
                parts.append(a)
            return " ".join(parts)

        for i, c in enumerate(conts):
            nodes[c] = {"content": expr(i)}
        nodes = {"doc": {"content": expr()}, **nodes}
        # attribute declarations (own generator, so the shapes above stay what they were): an explicit default of None
        # is still a default - such a type stays generatable - while an attribute without default makes it non-generatable
        rnd2 = _r.Random(seed * 977 + tries)
        for nm in list(nodes):
            if nm in ("doc", "text") or nodes[nm].get("attrs"):
                continue
            q = rnd2.random()
            if q < 0.3:
                nodes[nm] = {**nodes[nm], "attrs": {"k": {"default": None}}}
            elif q < 0.4:
                nodes[nm] = {**nodes[nm], "attrs": {"k": {"default": None}, "lvl": {"default": 1}}}
            elif q < 0.45:
                nodes[nm] = {**nodes[nm], "attrs": {"k": {"default": 0}, "req": {}}}
        spec = {"nodes": nodes}
        try:
            Schema(spec)
        except Exception:  # noqa: BLE001
            continue
        out[f"r{len(out)}"] = spec
    return out


def extra_specs(seed=1):
    """small schemas with awkward content expressions (required sequences, non-generatable types)"""
    base = lambda doc, **more: {"nodes": {"doc": {"content": doc}, "a": {"group": "g", "content": "text*", "attrs": {"id": {"default": None}}}, "b": {"group": "g", "content": "text*"},  # noqa: E731
                                          "c": {"content": "g+"}, "r": {"attrs": {"x": {}}, "content": "text*"}, "w": {"content": "c a?"}, "text": {"group": "inline"}, **more}}
    out = {
        # the same wrapper reachable from two parents, one of which needs a sibling after it
        "x7": {"nodes": {"doc": {"content": "(section | card)+"}, "section": {"content": "figure caption"}, "card": {"content": "figure"},
                         "figure": {"content": "row+"}, "caption": {"content": "text*"}, "row": {}, "text": {"group": "inline"}}},
        "x8": {"nodes": {"doc": {"content": "(box | pair)+"}, "pair": {"content": "inner tail"}, "box": {"content": "wrap"}, "wrap": {"content": "inner"},
                         "inner": {"content": "leaf+"}, "tail": {"content": "text*"}, "leaf": {}, "text": {"group": "inline"}}},
    }
    out.update(random_specs(seed))
    out.update({
        "x1": base("a b c"), "x2": base("(a | b)+ c?"), "x3": base("a{2} b{1,2} w*"), "x4": base("c* (r | a) b"), "x5": base("w+ | (a b)+"),
        "x6": base("a? r? b+"),
    })
    return out


def states(S, O, tname):
    """reachable (real match, oracle state, prefix) triples of a node type's content"""
    real0 = S.nodes[tname].content_match
    o0 = O.nodes[tname].dfa.start
    dfa = O.nodes[tname].dfa
    out = []
    seen = set()
    todo = [(real0, o0, ())]
    while todo and len(out) < 40:
        m, s, pre = todo.pop(0)
        if (id(m), s) in seen:
            continue
        seen.add((id(m), s))
        out.append((m, s, pre))
        for a in dfa.alphabet:
            m2 = m.match_type(S.nodes[a])
            if m2 is not None and len(pre) < 5:
                todo.append((m2, dfa.trans[(s, a)], pre + (a,)))
    return out


def fill_exists(O, dfa, s, after, to_end):
    """BFS: is there a word of generatable types w with s --w--> s', s' --after--> live (accepting if to_end)?"""
    seen = {s}
    todo = [s]
    while todo:
        cur = todo.pop(0)
        st = cur
        for a in after:
            st = dfa.trans.get((st, a), rx.EMPTY)
        if st in dfa.live and (not to_end or rx.nullable(st)):
            return True
        for a in dfa.alphabet:
            if not O.nodes[a].generatable():
                continue
            d = dfa.trans[(cur, a)]
            if d in dfa.live and d not in seen:
                seen.add(d)
                todo.append(d)
    return False


def wrap_oracle(O, dfa, s, target):
    """shortest chain of wrapper type names, or None"""
    if dfa.trans[(s, target)] in dfa.live:
        return []
    ok = lambda t: not O.nodes[t].is_leaf and not O.nodes[t].is_text and not O.nodes[t].has_required_attrs()  # noqa: E731
    frontier = [[t] for t in dfa.alphabet if ok(t) and dfa.trans[(s, t)] in dfa.live]
    seen = {c[0] for c in frontier}
    while frontier:
        nxt = []
        for chain in frontier:
            w = O.nodes[chain[-1]]
            if w.dfa.trans[(w.dfa.start, target)] in w.dfa.live:
                return chain
        for chain in frontier:
            w = O.nodes[chain[-1]]
            for t in w.dfa.alphabet:
                if ok(t) and t not in seen and rx.nullable(w.dfa.trans[(w.dfa.start, t)]):
                    seen.add(t)
                    nxt.append(chain + [t])
        frontier = nxt
    return None


def run(tier, seed, findings):
    from prosemirror.model import Fragment, Schema

    rec = Recorder("C15")
    rnd = random.Random(seed)
    schemas = [(n,) + D.schema(n) for n in SCHEMAS]
    for n, spec in extra_specs(seed).items():
        try:
            schemas.append((n, Schema(spec), orc.OSchema(spec)))
        except SyntaxError as e:
            # the hand-written specs x1..x8 have a generatable type in every required position: refusing one says
            # that no filler exists where one does (random specs that the library refuses were never admitted)
            call = dict(fn="Schema", spec=n, nodes={k: v for k, v in spec["nodes"].items()})
            rec.case(("schema", n), sample=call)
            rec.violation("schema-refused", f"valid schema refused: {e}", call)
    for name, S, O in schemas:
        gen_kids = {}
        for tn, nt in O.nodes.items():
            if nt.is_text:
                gen_kids[tn] = D.mk_text(S, "t")
            else:
                try:
                    k = S.nodes[tn].create_and_fill({a: "v" for a in nt.attrs} or None)
                except Exception:  # noqa: BLE001
                    k = None
                if k is not None:
                    gen_kids[tn] = k
        for tname, nt in O.nodes.items():
            if nt.is_leaf or nt.is_text:
                continue
            dfa = nt.dfa
            for m, s, pre in states(S, O, tname):
                afters = [()] + [(a,) for a in dfa.alphabet if a in gen_kids] + [tuple(rnd.choice([a for a in dfa.alphabet if a in gen_kids]) for _ in range(rnd.randint(2, 3))) for _ in range(3 if tier == "quick" else 8)]
                for after in afters:
                    frag = Fragment([gen_kids[a] for a in after], sum(orc.node_size(gen_kids[a]) for a in after)) if after else Fragment.empty
                    for to_end in (False, True):
                        for start in range(0, len(after) + 1 if tier != "quick" else min(len(after), 1) + 1):
                            call = dict(fn="fill_before", schema=name, type=tname, prefix=list(pre), after=list(after), to_end=to_end, start_index=start)
                            rec.case(("fill", name, orc.canon_json(call)), sample=call)
                            try:
                                with time_limit(2):
                                    got = m.fill_before(frag, to_end, start)
                            except Timeout:
                                rec.violation("fill-hangs", "", call)
                                continue
                            except Exception as e:  # noqa: BLE001
                                rec.violation("fill-raises", f"{type(e).__name__}: {e}", call)
                                continue
                            exp = fill_exists(O, dfa, s, after[start:], to_end)
                            if got is None:
                                if exp:
                                    rec.violation("fill-incomplete", "returned nothing although a filling exists", call)
                                continue
                            names = [k.type.name for k in got.content]
                            if any(not O.nodes[x].generatable() for x in names):
                                rec.violation("fill-ungeneratable", f"returned {names}", call)
                            st = s
                            for a in list(names) + list(after[start:]):
                                st = dfa.trans.get((st, a), rx.EMPTY)
                            if st not in dfa.live or (to_end and not rx.nullable(st)):
                                rec.violation("fill-unsound", f"filling {names} does not make the combined sequence match", call)
                            for k in got.content:
                                why = O.valid(k)
                                if why:
                                    rec.violation("fill-invalid-node", why, call)
                for target in dfa.alphabet:
                    call = dict(fn="find_wrapping", schema=name, type=tname, prefix=list(pre), target=target)
                    rec.case(("wrap", name, orc.canon_json(call)))
                    try:
                        got1 = m.find_wrapping(S.nodes[target])
                        got2 = m.find_wrapping(S.nodes[target])  # cached answer
                    except Exception as e:  # noqa: BLE001
                        rec.violation("wrap-raises", f"{type(e).__name__}: {e}", call)
                        continue
                    g1 = None if got1 is None else [t.name for t in got1]
                    g2 = None if got2 is None else [t.name for t in got2]
                    if g1 != g2:
                        rec.violation("wrap-cache", f"first call {g1}, repeated call {g2}", call)
                    exp = wrap_oracle(O, dfa, s, target)
                    if g1 is None:
                        if exp is not None:
                            rec.violation("wrap-incomplete", f"no wrapping found, but {exp} fits", call)
                        continue
                    if exp is None or len(g1) != len(exp):
                        rec.violation("wrap-not-shortest", f"returned {g1}, shortest is {exp}", call)
                    # soundness of the returned chain
                    bad = None
                    if g1:
                        if dfa.trans[(s, g1[0])] not in dfa.live:
                            bad = "first wrapper not allowed at the position"
                        for x, y in zip(g1, g1[1:]):
                            w = O.nodes[x]
                            if not rx.nullable(w.dfa.trans[(w.dfa.start, y)]):
                                bad = f"{x} cannot hold {y} as its only child"
                        w = O.nodes[g1[-1]]
                        if w.dfa.trans[(w.dfa.start, target)] not in w.dfa.live:
                            bad = f"{g1[-1]} does not accept {target} as its first child"
                        for x in g1:
                            if O.nodes[x].is_leaf or O.nodes[x].has_required_attrs():
                                bad = f"{x} is a leaf or needs attributes"
                    elif dfa.trans[(s, target)] not in dfa.live:
                        bad = "empty chain but the type does not fit directly"
                    if bad:
                        rec.violation("wrap-unsound", bad, call)
            # create_and_fill
            for content in [()] + [(a,) for a in dfa.alphabet if a in gen_kids][:4]:
                frag = Fragment([gen_kids[a] for a in content], sum(orc.node_size(gen_kids[a]) for a in content)) if content else None
                call = dict(fn="create_and_fill", schema=name, type=tname, content=list(content))
                rec.case(("caf", name, orc.canon_json(call)))
                if nt.has_required_attrs():
                    continue
                try:
                    node = S.nodes[tname].create_and_fill(None, frag)
                except Exception as e:  # noqa: BLE001
                    rec.violation("create-and-fill-raises", f"{type(e).__name__}: {e}", call)
                    continue
                possible = fill_exists(O, dfa, dfa.start, content, False) and any(
                    True for _ in [0]
                )
                if node is None:
                    # nothing only if no filling exists: before-fill then end-fill
                    ok = False
                    seen = {dfa.start}
                    todo = [dfa.start]
                    while todo and not ok:
                        cur = todo.pop(0)
                        st = cur
                        for a in content:
                            st = dfa.trans[(st, a)]
                        if st in dfa.live and fill_exists(O, dfa, st, (), True):
                            ok = True
                        for a in dfa.alphabet:
                            d = dfa.trans[(cur, a)]
                            if O.nodes[a].generatable() and d in dfa.live and d not in seen:
                                seen.add(d)
                                todo.append(d)
                    if ok:
                        rec.violation("create-and-fill-incomplete", "returned nothing although the content can be completed", call)
                    continue
                why = O.valid(node)
                if why:
                    rec.violation("create-and-fill-invalid", why, call)
                names = [k.type.name for k in node.content.content]
                if not orc.is_subsequence(list(content), names):
                    rec.violation("create-and-fill-content", f"given content {list(content)} not contained in order in {names}", call)
    return rec.result(
        rule="every reachable match state (<= 40 per node type, prefixes <= 5) of every non-leaf node type of 5 schema variants + 6 small schemas with awkward expressions and non-generatable types: fill_before for following fragments (<= 3 nodes), both to_end values, start indices; find_wrapping for every target type (twice: cache); create_and_fill; oracles: BFS over independent derivative automata; distinct by call JSON",
        bounds=dict(tier=tier, schemas=SCHEMAS + list(extra_specs(seed))),
    )
