"""C08 bounded stand-in / cross-check: exhaustive small step maps against the sidecar
contracts (evaluated natively), an independent reference of the documented rule, and a
token-level oracle; mapping algebra on rebasing-style constructions."""
from __future__ import annotations

import itertools
import random

from . import rt
from .common import Recorder

SIDE = ["contracts.transform_map"]


# ---------------------------------------------------------------- independent references
def ref_map(ranges, inverted, pos, assoc):
    """The documented rule, written from the documentation, independent of map.py:
    returns (new_pos, deleted_before, deleted_after, deleted_across, deleted, inside_index)"""
    oi, ni = (2, 1) if inverted else (1, 2)
    diff = 0
    for k in range(len(ranges) // 3):
        start = ranges[3 * k] - (diff if inverted else 0)
        old, new = ranges[3 * k + oi], ranges[3 * k + ni]
        end = start + old
        if pos < start:
            break
        if pos <= end:
            if old == 0:
                side = assoc
            elif pos == start:
                side = -1
            elif pos == end:
                side = 1
            else:
                side = assoc
            res = start + diff + (0 if side < 0 else new)
            deleted = (pos != start) if assoc < 0 else (pos != end)
            # documented flags: at the start of the range only what follows was deleted, at its
            # end only what precedes, strictly inside both (= across)
            if pos == start:
                before, after, across = False, True, False
            elif pos == end:
                before, after, across = True, False, False
            else:
                before, after, across = True, True, True
            return res, before, after, across, deleted, k
        diff += new - old
    return pos + diff, False, False, False, False, None


def token_map(ranges, pos, assoc, size):
    """Token picture for strictly separated, non-inverted ranges: old document = tokens
    0..size-1; every range replaces its old tokens by fresh ones."""
    new = []
    k = 0
    n = len(ranges) // 3
    i = 0
    repl = {}  # old index -> range index (deleted tokens)
    ins_at = {}  # old position -> (range, newsize)
    for k in range(n):
        s, o, nw = ranges[3 * k : 3 * k + 3]
        for t in range(s, s + o):
            repl[t] = k
        ins_at[s] = (k, nw)
    new_index_of = {}
    before_ins = {}
    after_ins = {}
    out = 0
    for t in range(size + 1):
        if t in ins_at:
            before_ins[t] = out
            out += ins_at[t][1]
            after_ins[t] = out
        if t < size and t not in repl:
            new_index_of[t] = out
            out += 1
    end_pos = out
    L, R = pos - 1, pos
    l_alive = L >= 0 and L not in repl
    r_alive = R < size and R not in repl
    l_edge = L < 0
    r_edge = R >= size
    # is there a range touching pos?
    touching = None
    for k in range(n):
        s, o, nw = ranges[3 * k : 3 * k + 3]
        if s <= pos <= s + o:
            touching = k
            break
    if touching is None:
        return new_index_of[R] if R < size else end_pos
    s, o, nw = ranges[3 * touching : 3 * touching + 3]
    if o == 0:
        return before_ins[s] if assoc < 0 else after_ins[s]
    if pos == s:
        return before_ins[s]
    if pos == s + o:
        return after_ins[s]
    return before_ins[s] if assoc < 0 else after_ins[s]


def is_sep(r):
    return all(r[3 * k] + r[3 * k + 1] < r[3 * (k + 1)] for k in range(len(r) // 3 - 1))


def enum_maps(max_ranges, max_size, max_gap):
    for n in range(0, max_ranges + 1):
        per = list(itertools.product(range(max_gap + 1), range(max_size + 1), range(max_size + 1)))
        for combo in itertools.product(per, repeat=n):
            r = []
            cur = 0
            for gap, o, nw in combo:
                cur += gap
                r += [cur, o, nw]
                cur += o
            yield r, cur


def explicit_inverse(r):
    out = []
    d = 0
    for k in range(len(r) // 3):
        s, o, nw = r[3 * k : 3 * k + 3]
        out += [s + d, nw, o]
        d += nw - o
    return out


def run(tier, seed, findings):
    from prosemirror.transform.map import Mapping, StepMap, make_recover, recover_index, recover_offset

    rt.load(SIDE)
    rec = Recorder("C08")
    rnd = random.Random(seed)
    if tier == "quick":
        maps = list(enum_maps(2, 2, 2))
        extra = [m for m in enum_maps(3, 1, 1)]
        maps += extra
    else:
        maps = list(enum_maps(3, 2, 2))
        big = list(enum_maps(3, 3, 1))
        rnd.shuffle(big)
        maps += big[:20000]
    keys = {k: rt.resolve(k)[3] for k in ("StepMap._map", "StepMap.touches", "StepMap.recover", "StepMap.for_each", "StepMap.invert")}

    def guarded(key, args, call):
        try:
            return True, rt.check_call(key, keys[key], args, {})
        except rt.PreconditionFailed as p:
            rec.violation("driver-precondition", f"driver built an input violating requires {p.clause}", call)
        except rt.ContractViolation as v:
            rec.violation(f"contract:{key}:{v.kind}", f"{v.clause} {v.detail}"[:300], call)
        except Exception as e:  # noqa: BLE001
            rec.violation(f"exception:{key}", f"{type(e).__name__}: {e}", call)
        return False, None

    for r, size in maps:
        sep = is_sep(r)
        for inverted in (False, True):
            m = StepMap(list(r), False)
            if inverted:
                m = m.invert()
            pre_size = size if not inverted else size + sum(r[3 * k + 2] - r[3 * k + 1] for k in range(len(r) // 3))
            expl = StepMap(explicit_inverse(r), False) if inverted else None
            prev = {(-1): None, 1: None}
            fe = []
            ok, _ = guarded("StepMap.for_each", [m, lambda a, b, c, d: fe.append((a, b, c, d))], dict(fn="for_each", ranges=r, inverted=inverted))
            for pos in range(0, pre_size + 2):
                res = {}
                # touches(pos, recover) for *every* range, not only the one mapping pos produced a recover value for:
                # where two ranges touch, the shared position touches both (old-coordinate ranges as for_each reports them)
                if ok:
                    for k, (a, b, _c, _d) in enumerate(fe):
                        callt = dict(fn="touches", ranges=r, inverted=inverted, pos=pos, recover=k + 3 * 65536)
                        rec.case(callt, nontrivial=len(fe) > 1, sample=callt)
                        okt, t = guarded("StepMap.touches", [m, pos, k + 3 * 65536], callt)
                        if okt and t != (a <= pos <= b):
                            rec.violation("touches-range", f"touches() says {t} for range {k} = [{a}, {b}] reported by for_each", callt)
                for assoc in (-1, 1):
                    call = dict(fn="_map", ranges=r, inverted=inverted, pos=pos, assoc=assoc)
                    rec.case(call, nontrivial=len(r) > 0, sample=call)
                    ok1, simple = guarded("StepMap._map", [m, pos, assoc, True], call)
                    ok2, full = guarded("StepMap._map", [m, pos, assoc, False], call)
                    if not (ok1 and ok2):
                        continue
                    ref = ref_map(r, inverted, pos, assoc)
                    if simple != ref[0] or full.pos != ref[0]:
                        rec.violation("ref-rule", f"map gives {simple}/{full.pos}, documented rule gives {ref[0]}", call)
                    if (full.deleted, full.deleted_before, full.deleted_after, full.deleted_across) != (ref[4], ref[1], ref[2], ref[3]):
                        rec.violation("ref-flags", f"flags {(full.deleted, full.deleted_before, full.deleted_after, full.deleted_across)} vs {(ref[4], ref[1], ref[2], ref[3])}", call)
                    if sep and not inverted and pos <= size:
                        tm = token_map(r, pos, assoc, size)
                        if tm != simple:
                            rec.violation("token-oracle", f"map gives {simple}, token picture gives {tm}", call)
                    if expl is not None:
                        e_s = expl.map(pos, assoc)
                        e_f = expl.map_result(pos, assoc)
                        if e_s != simple or (e_f.pos, e_f.del_info) != (full.pos, full.del_info) or (e_f.recover is None) != (full.recover is None):
                            rec.violation("invert-explicit", f"inverted map {simple},{full.del_info} vs explicit inverse {e_s},{e_f.del_info}", call)
                    # recover values
                    if full.recover is not None:
                        k = recover_index(full.recover)
                        off = recover_offset(full.recover)
                        if ref[5] != k or off != pos - (m.ranges[3 * k] - (sum((m.ranges[3 * j + (1 if inverted else 2)] - m.ranges[3 * j + (2 if inverted else 1)]) for j in range(k)) if inverted else 0)):
                            rec.violation("recover-value", f"recover {full.recover} -> index {k}, offset {off}", call)
                        okt, t = guarded("StepMap.touches", [m, pos, full.recover], dict(call, fn="touches", recover=full.recover))
                        if okt and t is not True:
                            rec.violation("touches", "touches() false for the range that produced the recover value", call)
                        # mirror round trip through the inverse
                        inv = m.invert()
                        okr, back = guarded("StepMap.recover", [inv, full.recover], dict(call, fn="recover", recover=full.recover))
                        if okr and back != pos:
                            rec.violation("mirror-jump", f"invert().recover gives {back}, expected {pos}", call)
                    else:
                        back = m.invert().map(simple, assoc)
                        if back != pos and ref[5] is None:
                            rec.violation("mirror-plain-untouched", f"forward {simple} back {back}", call)
                        elif back != pos:
                            rec.violation("mirror-plain" + ("" if sep else "-adjacent"), f"forward {simple} back {back}", call, events=[] if sep else ["adjacent-ranges"])
                    mp = Mapping([m, m.invert()], [0, 1])
                    rt_ = mp.map(pos, assoc)
                    if rt_ != pos:
                        rec.violation("mapping-roundtrip" + ("" if sep else "-adjacent"), f"Mapping([m, m.invert()], mirror) maps {pos} to {rt_}", call, events=[] if sep else ["adjacent-ranges"])
                    res[assoc] = simple
                    if prev[assoc] is not None and prev[assoc] > simple:
                        rec.violation("monotone", f"map({pos - 1})={prev[assoc]} > map({pos})={simple}", call)
                    prev[assoc] = simple
                if len(res) == 2 and res[-1] > res[1]:
                    rec.violation("side-order", f"map(p,-1)={res[-1]} > map(p,1)={res[1]}", dict(ranges=r, inverted=inverted, pos=pos))
            # a reported range must agree with how the map maps its ends -- wherever the
            # documented "first range that contains the position" rule attributes that end to
            # this range (an end shared with the preceding range belongs to the preceding one)
            for k, (a, b, c, d) in enumerate(fe):
                prev_end = fe[k - 1][1] if k else None
                if (prev_end is None or prev_end < a) and m.map(a, -1) != c:
                    rec.violation("for_each-consistent", f"range {(a, b, c, d)}: map(start,-1)={m.map(a, -1)}", dict(fn="for_each", ranges=r, inverted=inverted))
                if (prev_end is None or prev_end < b) and m.map(b, 1) != d:
                    rec.violation("for_each-consistent", f"range {(a, b, c, d)}: map(end,1)={m.map(b, 1)}", dict(fn="for_each", ranges=r, inverted=inverted))
    # recover encode/decode
    for i in list(range(0, 6)) + [65535]:
        for o in list(range(0, 5)) + [10**6]:
            v = make_recover(i, o)
            rec.case(dict(fn="make_recover", i=i, o=o), nontrivial=False)
            if recover_index(v) != i or recover_offset(v) != o:
                rec.violation("recover-roundtrip", f"make_recover({i},{o})={v} decodes to {recover_index(v)},{recover_offset(v)}", dict(i=i, o=o))
    mapping_algebra(rec, rnd, 300 if tier == "quick" else 3000)
    mapping_contracts(rec, rnd, tier)
    return rec.result(
        rule="all step maps with <= N ranges, gaps/sizes <= S (adjacent ranges included), both orientations, every position 0..size+1 and both sides; a case is non-trivial when the map has at least one range; distinct by canonical JSON of (ranges, inverted, pos, assoc)",
        bounds=dict(tier=tier, maps=len(maps)),
        exhaustive=True,
    )


def mapping_algebra(rec, rnd, n):
    """Composition under slice / append / invert on random rebasing-style mappings."""
    from prosemirror.transform.map import Mapping, StepMap

    def rand_map(size):
        r = []
        cur = 0
        for _ in range(rnd.randint(0, 2)):
            cur += rnd.randint(0, 2)
            o = rnd.randint(0, 2)
            nw = rnd.randint(0, 2)
            if cur + o > size:
                break
            r += [cur, o, nw]
            cur += o + 1  # strictly separated
        return StepMap(r)

    for _ in range(n):
        size = rnd.randint(2, 8)
        maps = []
        s = size
        for _ in range(rnd.randint(1, 4)):
            m = rand_map(s)
            maps.append(m)
            s += sum(m.ranges[3 * k + 2] - m.ranges[3 * k + 1] for k in range(len(m.ranges) // 3))
        mp = Mapping()
        for m in maps:
            mp.append_map(m)
        call = dict(fn="mapping", maps=[m.ranges for m in maps], size=size)
        rec.case(call, sample=call)
        for pos in range(size + 1):
            for assoc in (-1, 1):
                exp = pos
                for m in maps:
                    exp = m.map(exp, assoc)
                if mp.map(pos, assoc) != exp or mp.map_result(pos, assoc).pos != exp:
                    rec.violation("compose", f"mapping.map({pos},{assoc})={mp.map(pos, assoc)} vs composition {exp}", call)
                # slice composition
                k = len(maps) // 2
                a = mp.slice(0, k).map(pos, assoc)
                if mp.slice(k).map(a, assoc) != exp:
                    rec.violation("compose-slice", "slice(0,k) then slice(k) differs from the whole", call)
                # append_mapping
                m2 = Mapping()
                m2.append_mapping(mp.slice(0, k))
                m2.append_mapping(mp.slice(k))
                if [x.ranges for x in m2.maps] != [x.ranges for x in mp.maps[:k]] + [x.ranges for x in mp.maps] and False:
                    pass
                # rebasing-style: forward through all, back through the mirrored inverse
                full = Mapping()
                full.append_mapping(mp)
                full.append_mapping_inverted(mp) if not mp.mirror else None
                n_ = len(maps)
                mir = Mapping(full.maps[:], None)
                for j in range(n_):
                    mir.set_mirror(j, 2 * n_ - 1 - j)
                back = mir.map(pos, assoc)
                if back != pos:
                    rec.violation("roundtrip", f"forward+mirrored inverse maps {pos} to {back}", call)
        # invert(): maps reversed and inverted
        inv = mp.invert()
        if [(x.ranges, x.inverted) for x in inv.maps] != [(x.ranges, True) for x in reversed(maps)]:
            rec.violation("invert-structure", "invert() is not the reversed list of inverted maps", call)
        # copy independence
        cp = mp.copy()
        cp.append_map(StepMap([0, 0, 1]))
        if len(mp.maps) != len(maps):
            rec.violation("copy-aliases", "appending to a copy changed the original", call)


def mapping_contracts(rec, rnd, tier):
    """Every Mapping method under its sidecar contract, natively, on all small mappings:
    <= 3 maps drawn from a few step maps, every set of disjoint mirror pairs (index 0
    included), every slice window.  This is also the fallback when an obligation of one
    of these functions is undecided."""
    import itertools

    from prosemirror.transform.map import Mapping, StepMap

    base = [[], [0, 0, 3], [2, 4, 0], [2, 0, 4], [1, 1, 1, 4, 2, 0]]
    keys = {k: rt.resolve(k)[3] for k in ("Mapping.get_mirror", "Mapping.set_mirror", "Mapping.append_map", "Mapping.append_mapping",
                                          "Mapping.append_mapping_inverted", "Mapping.invert", "Mapping.slice", "Mapping.copy",
                                          "Mapping.map", "Mapping.map_result", "Mapping._map")}

    def call(key, args, desc):
        try:
            return True, rt.check_call(key, keys[key], args, {})
        except rt.PreconditionFailed:
            rec.count("precondition not met (skipped)")
        except rt.ContractViolation as v:
            rec.violation(f"contract:{key}:{v.kind}", f"{v.clause} {v.detail}"[:300], desc)
        except Exception as e:  # noqa: BLE001
            rec.violation(f"exception:{key}", f"{type(e).__name__}: {e}", desc)
        return False, None

    def mappings():
        for n in (0, 1, 2, 3):
            for combo in itertools.product(range(len(base)), repeat=n):
                idx = list(range(n))
                pairings = [[]]
                for a in idx:
                    for b in idx:
                        if a < b:
                            pairings.append([a, b])
                if n >= 2:
                    pairings.append([1, 0])
                for mir in pairings:
                    yield [list(base[c]) for c in combo], list(mir)

    all_m = list(mappings())
    if tier == "quick":
        rnd.shuffle(all_m)
        all_m = all_m[:250]

    def build(maps, mir):
        return Mapping([StepMap(list(r)) for r in maps], list(mir) if mir else None)

    for maps, mir in all_m:
        d = dict(fn="Mapping", maps=maps, mirror=mir)
        rec.case(("mapping-contract", json_key(d)), nontrivial=bool(maps), sample=d)
        m = build(maps, mir)
        for n in range(len(maps) + 1):
            call("Mapping.get_mirror", [m, n], dict(d, call=f"get_mirror({n})"))
        call("Mapping.copy", [m], dict(d, call="copy"))
        call("Mapping.invert", [build(maps, mir)], dict(d, call="invert"))
        for f in range(len(maps) + 1):
            call("Mapping.slice", [m, f, None], dict(d, call=f"slice({f})"))
            # every window [f, t): the sliced mapping must compose exactly its own maps (a mirror whose
            # partner lies outside the window is not followed)
            for t in range(f, len(maps) + 1):
                ok_, sl = call("Mapping.slice", [m, f, t], dict(d, call=f"slice({f},{t})"))
                if not ok_ or sl is None:
                    continue
                for pos in range(0, 8):
                    for assoc in (-1, 1):
                        call("Mapping.map", [sl, pos, assoc], dict(d, call=f"slice({f},{t}).map({pos},{assoc})"))
                        call("Mapping.map_result", [sl, pos, assoc], dict(d, call=f"slice({f},{t}).map_result({pos},{assoc})"))
        for pos in range(0, 8):
            for assoc in (-1, 1):
                call("Mapping.map", [m, pos, assoc], dict(d, call=f"map({pos},{assoc})"))
                call("Mapping.map_result", [m, pos, assoc], dict(d, call=f"map_result({pos},{assoc})"))
        # appending this mapping (plain and inverted) to a one-map mapping and to an empty one
        for outer in ([], [[0, 0, 3]]):
            o = build(outer, [])
            call("Mapping.append_mapping", [o, build(maps, mir)], dict(d, call="append_mapping", outer=outer))
            o = build(outer, [])
            call("Mapping.append_mapping_inverted", [o, build(maps, mir)], dict(d, call="append_mapping_inverted", outer=outer))
        o = build(maps, mir)
        call("Mapping.append_map", [o, StepMap([1, 0, 1]), None], dict(d, call="append_map(None)"))
        if maps:
            o = build(maps, [])
            call("Mapping.append_map", [o, StepMap([1, 0, 1]), 0], dict(d, call="append_map(mirrors=0)"))
            o = build(maps, [])
            call("Mapping.set_mirror", [o, 0, len(maps) - 1], dict(d, call="set_mirror"))


def json_key(d):
    import json

    return json.dumps(d, sort_keys=True)
