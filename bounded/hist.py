"""Histories built through the transform API: shared by the C03 / C04 / C10 / C16 / C17 drivers."""
from __future__ import annotations

import random

from spec import oracle as orc

from . import domain as D
from . import ops
from .common import Timeout, time_limit

HIST_SCHEMAS = ["basic", "list", "strict", "iso", "table"]


def histories(name, tier, seed, n_docs=None, n_hist=None, length=None):
    """yields (doc, [(desc, kind, args)], transform after applying them, per-op record)"""
    from prosemirror.transform import Transform

    rnd = random.Random(seed * 31 + sum(map(ord, name)))
    S, O = D.schema(name)
    docs = [d for d in D.corpus(name, 10 if tier == "quick" else 40, seed) if d.content.size <= 24]
    pool = [s for s in D.slice_pool(name, docs, rnd, 40) if ops.slice_ok(O, s)]
    n_hist = n_hist or (4 if tier == "quick" else 20)
    length = length or (4 if tier == "quick" else 6)
    for doc in docs[: n_docs or len(docs)]:
        for _ in range(n_hist):
            tr = Transform(doc)
            log = []
            for _step in range(length):
                cand = ops.highlevel_ops(name, tr.doc, pool, rnd, 1)[0]
                desc, kind, args = cand
                before = (tr.doc, len(tr.steps), len(tr.docs), len(tr.mapping.maps))
                outcome = "applied"
                try:
                    with time_limit(2):
                        ok = ops.apply_op(tr, kind, args, name)
                    if not ok:
                        outcome = "not-applicable"
                except Timeout:
                    outcome = "hang"
                except ValueError as e:
                    outcome = f"rejected:{type(e).__name__}"
                except Exception as e:  # noqa: BLE001
                    outcome = f"error:{type(e).__name__}: {e}"
                log.append(dict(desc=desc, kind=kind, outcome=outcome, before=before))
            yield doc, log, tr


def step_json(s):
    try:
        return s.to_json()
    except Exception:  # noqa: BLE001
        return repr(s)


def check_map_faithful(rec, name, old, new, step, call):
    """C03: size delta == sum(new-old); every old token outside the replaced ranges is found
    unchanged at the mapped position."""
    m = step.get_map()
    ranges = []
    m.for_each(lambda a, b, c, d: ranges.append((a, b, c, d)))
    ot, nt = orc.tokens(old), orc.tokens(new)
    # ghost event for the call-site keyed finding: two ranges of the map touch
    events = ["adjacent-ranges"] if any(ranges[k][1] == ranges[k + 1][0] for k in range(len(ranges) - 1)) else []
    delta = sum((d - c) - (b - a) for a, b, c, d in ranges)
    if len(nt) - len(ot) != delta:
        rec.violation("map-size-delta", f"document size changed by {len(nt) - len(ot)}, the map's ranges say {delta}", call)
        return
    replace_like = type(step).__name__ in ("ReplaceStep", "ReplaceAroundStep")

    def untyped(t):
        if t[0] == "close":
            return ("close",)
        if not replace_like:
            # mark / attribute steps change marks or attributes in place and report an empty
            # map: the token (character, node) is the same one, only its markup differs
            return (t[0], t[1])
        return t

    for j, tok in enumerate(ot):
        if any(a <= j < b for a, b, c, d in ranges):
            continue
        p = m.map(j, 1)
        if not (0 <= p < len(nt)) or untyped(nt[p]) != untyped(tok):
            rec.violation("map-token", f"old token {j} {tok} is not at mapped position {p}", call, events)
            return
    for pos in range(len(ot) + 1):
        if any(a < pos < b for a, b, c, d in ranges):
            continue
        for assoc in (-1, 1):
            p = m.map(pos, assoc)
            if not (0 <= p <= len(nt)):
                rec.violation("map-range", f"position {pos} maps to {p} outside the new document", call)
                return
