"""Entry point of every registered check:  ./check <ID> [--tier quick|thorough] [--replay f]

Order: tier P (deductive obligations generated from /repo's current source, discharged by
SMT), then tier B (bounded stand-in / cross-check under /venv/bin/python).  Exit codes:
0 held, 1 VIOLATION (not listed as known finding), 3 the checker itself is broken.
"""
from __future__ import annotations

import argparse
import hashlib
import json
import os
import subprocess
import sys
import time
import traceback

ROOT = os.path.dirname(os.path.dirname(os.path.abspath(__file__)))
sys.path.insert(0, ROOT)
# the tree under verification: /repo, or a scratch worktree when evaluating a seeded change
REPO = os.path.abspath(os.environ.get("VERIF_REPO", "/repo"))
os.environ["PYVC_REPO"] = REPO
os.environ["VERIF_REPO"] = REPO
ALT = REPO != "/repo"
OUT = os.path.join(ROOT, "out") if not ALT else os.path.join(ROOT, "out", "alt-" + hashlib.blake2b(REPO.encode(), digest_size=4).hexdigest())
os.environ["PYVC_OUT"] = OUT
REPLAYS = os.path.join(OUT, "replays")
VENV_PY = "/venv/bin/python"

from checker.props import PROPS  # noqa: E402

ASSUMPTIONS = {
    "A1": "A1 Python ints are exact; // and % only with positive constant divisors",
    "A2": "A2 true division x/c (make_recover, recover_offset, i/3) is modelled as exact integer division; sound below 2^53",
    "A3": "A3 x & (2^k-1) is x mod 2^k; | and & on flags are encoded on 8-bit vectors with range obligations",
    "A4": "A4 instances of repo classes are truthy (no __bool__/__len__ on them; re-checked every run)",
    "A5": "A5 == on repo objects without __eq__ is identity (re-checked every run)",
    "A6": "A6 builtin exception hierarchy; assert is an obligation (no -O)",
    "A7": "A7 str is a sequence of code points; u16(s) is a trusted spec function (encode('utf-16-le') not verified)",
    "A8": "A8 callbacks are modelled as appends of their int arguments to a ghost trace; callbacks do not mutate",
    "A9": "A9 recursion is verified against the function's own contract with a decreasing measure",
    "A10": "A10 no call to a function without a contract inside a function under contract (except inlined __init__ and listed helpers)",
    "H1": "list-valued mutable fields are modelled as values owned by their object (no list sharing between objects)",
    "Z3": "trusted: z3 5.1.0 / cvc5 1.0.3 answers `unsat`; `sat` is never trusted without a model that evaluates and replays",
    "PYVC": "trusted: pyvc itself (mitigated by mutation self-test and native replay of every counter-model)",
}


def sh(cmd, timeout, env=None):
    e = dict(os.environ)
    e.update(env or {})
    e["PYTHONPATH"] = ROOT + os.pathsep + (REPO + os.pathsep if ALT else "") + e.get("PYTHONPATH", "")
    return subprocess.run(cmd, capture_output=True, text=True, timeout=timeout, env=e, cwd=ROOT)


def load_findings():
    p = os.path.join(ROOT, "known_findings.json")
    if not os.path.exists(p):
        return {"findings": [], "fixed": []}
    return json.load(open(p))


def finding_for(findings, prop, check, events, key=None):
    for f in findings["findings"]:
        if f["property"] != prop:
            continue
        if check not in f.get("checks", []):
            continue
        ev = f.get("event")
        if ev and ev not in events:
            continue
        return f
    return None


def write_replay(prop, doc):
    os.makedirs(REPLAYS, exist_ok=True)
    h = hashlib.blake2b(json.dumps(doc, sort_keys=True, default=str).encode(), digest_size=6).hexdigest()
    path = os.path.join(REPLAYS, f"{prop}-{h}.json")
    with open(path, "w") as f:
        json.dump(doc, f, indent=1, default=str)
    return path


def tier_p(prop, cfg, tier, jobs):
    """-> dict with obligations, results, violations (list of (name, replay, has_input)), undecided, drift"""
    from pyvc import api
    from pyvc.solve import load_sidecars, run_all

    mods = cfg["sidecars"]
    if not mods and not cfg.get("frames"):
        return None
    if not mods:
        out = dict(functions=[], lemmas=[], trusted=[], axioms=[], wall_s=0.0, obligations=0, discharged=0, covers=0, covers_reachable=0, solver_s=0.0,
                   backends={}, sat=[], unknown=[], drift=[], crash=[], per_function={}, samples=[])
        frames_into(out)
        return out
    load_sidecars(mods)
    keys = [k for k, c in api.CONTRACTS.items() if prop in c.props and not c.trusted]
    lemmas = [k for k, l in api.LEMMAS.items() if prop in l.props]
    # every lemma a selected function (or a selected lemma) instantiates is proved in this run too
    def _used(obj):
        names = list(getattr(obj, "uses", []) or []) + [n for n, _ in (getattr(obj, "calls", []) or [])]
        for lst in (getattr(obj, "calls_func", {}) or {}).values():
            names += [n for n, _ in lst]
        for sp in (getattr(obj, "loops", {}) or {}).values():
            for kk in ("calls", "entry_calls", "exit_calls"):
                names += [n for n, _ in sp.get(kk, [])]
        return names
    todo = [api.CONTRACTS[k] for k in keys] + [api.LEMMAS[k] for k in lemmas]
    while todo:
        o_ = todo.pop()
        for n in _used(o_):
            if n in api.LEMMAS and n not in lemmas:
                lemmas.append(n)
                todo.append(api.LEMMAS[n])
    trusted = [f"{k}: {c.trusted}" for k, c in api.CONTRACTS.items() if c.trusted and prop in c.props]
    # naming clauses (`defines`) are assumed at call sites, never proved: they only say that the function is a pure,
    # deterministic function of its arguments (its answer is given a name); the native phase evaluates them
    trusted += [f"{k}: naming assumption (answer is a function of the arguments; checked natively only): {'; '.join(c.defines)}"
                for k, c in api.CONTRACTS.items() if c.defines and not c.trusted and prop in c.props]
    axioms = [f"axiom {a.name}: {a.expr} ({a.reason})" for a in api.AXIOMS]
    shards = {k: cfg.get("shards", {}).get(k, 1) for k in keys}
    t0 = time.time()
    timeout_ms = cfg.get("timeout_ms", 30000) * (2 if tier == "thorough" else 1)
    os.environ["PYVC_TIER"] = tier
    res = run_all(mods, keys, lemmas, jobs=jobs, shards=shards, timeout_ms=timeout_ms)
    out = dict(functions=keys, lemmas=lemmas, trusted=trusted, axioms=axioms, wall_s=round(time.time() - t0, 2),
               obligations=0, discharged=0, covers=0, covers_reachable=0, solver_s=0.0, backends={}, sat=[], unknown=[], drift=[], crash=[],
               per_function={}, samples=[])
    for r in res:
        fkey = r["key"]
        pf = out["per_function"].setdefault(fkey, dict(obligations=0, discharged=0, status="proved", reachable_returns=0))
        if r.get("drift"):
            out["drift"].append((fkey, r["drift"]))
            pf["status"] = "undecided (drift)"
            continue
        if r.get("crash"):
            out["crash"].append((fkey, r["crash"]))
            pf["status"] = "checker crash"
            continue
        for o in r["results"]:
            out["solver_s"] += o["s"]
            if o["kind"] == "cover":
                out["covers"] += 1
                if o["result"] == "sat":
                    out["covers_reachable"] += 1
                    pf["reachable_returns"] += 1
                continue
            out["obligations"] += 1
            pf["obligations"] += 1
            out["backends"][o["backend"]] = out["backends"].get(o["backend"], 0) + 1
            out.setdefault("stages", {})[str(o.get("stage"))] = out.setdefault("stages", {}).get(str(o.get("stage")), 0) + 1
            if o["result"] == "unsat":
                out["discharged"] += 1
                pf["discharged"] += 1
                if len(out["samples"]) < 5 and (o.get("note") or "").strip():
                    out["samples"].append(dict(obligation=o["name"], clause=o.get("note"), result="unsat", backend=o["backend"], s=o["s"]))
            elif o["result"] == "sat":
                out["sat"].append((fkey, r["kind"], o))
                pf["status"] = "refuted"
            else:
                out["unknown"].append((fkey, o))
                if pf["status"] == "proved":
                    pf["status"] = "undecided"
    out["solver_s"] = round(out["solver_s"], 2)
    if cfg.get("frames"):
        frames_into(out)
    return out


def frames_into(out):
    """tier P': ownership / frame obligations, one per heap write site of the library"""
    from pyvc import frames

    t0 = time.time()
    sites, problems = frames.analyse_repo(REPO)
    for p in problems:
        out["drift"].append(("frames", p))
    for s in sites:
        out["obligations"] += 1
        pf = out["per_function"].setdefault("frames:" + s.func, dict(obligations=0, discharged=0, status="proved", reachable_returns=1))
        pf["obligations"] += 1
        out["backends"]["frames (AST ownership analysis)"] = out["backends"].get("frames (AST ownership analysis)", 0) + 1
        if s.ok:
            out["discharged"] += 1
            pf["discharged"] += 1
            if len([x for x in out["samples"] if "frame" in str(x)]) < 3:
                out["samples"].append(dict(obligation=s.name, result="discharged", reason=s.reason))
        else:
            pf["status"] = "refuted"
            out["sat"].append(("frames:" + s.func, "lemma", dict(name=s.name, note=s.reason, backend="frames (AST ownership analysis)", s=0.0, model=None, result="sat")))
    out["frames_sites"] = len(sites)
    out["wall_s"] = round(out["wall_s"] + time.time() - t0, 2)


def native_replay(path):
    try:
        p = sh([VENV_PY, "-m", "bounded.replay", path], 60)
        line = (p.stdout.strip().splitlines() or ["{}"])[-1]
        d = json.loads(line)
        return d.get("code", 2), d.get("message", p.stderr[-300:])
    except Exception as e:  # noqa: BLE001
        return 2, f"replay failed to run: {e}"


def tier_b(prop, cfg, tier, seed):
    drv = cfg.get("driver")
    if not drv:
        return None
    os.makedirs(OUT, exist_ok=True)
    outfile = os.path.join(OUT, f"tierB-{prop}-{tier}.json")
    if os.path.exists(outfile):
        os.remove(outfile)
    t0 = time.time()
    budget = cfg.get("budget_s", {}).get(tier, 600 if tier == "quick" else 3600)
    try:
        p = sh([VENV_PY, "-m", "bounded.run", drv, tier, str(seed), outfile], budget + 120)
    except subprocess.TimeoutExpired:
        return dict(error=f"tier B driver exceeded {budget + 120}s")
    if p.returncode != 0 or not os.path.exists(outfile):
        return dict(error=f"tier B driver crashed (exit {p.returncode}): {p.stderr[-1500:]}")
    d = json.load(open(outfile))
    d["wall_s"] = round(time.time() - t0, 2)
    return d


def tier_n(prop, cfg, tier):
    """the sidecar contracts of this property (proved and trusted) and the class invariants,
    evaluated natively while the repository's tests and a corpus of operations run"""
    mods = cfg.get("sidecars")
    if not mods:
        return None
    os.makedirs(OUT, exist_ok=True)
    outfile = os.path.join(OUT, f"native-{prop}-{tier}.json")
    if os.path.exists(outfile):
        os.remove(outfile)
    try:
        p = sh([VENV_PY, "-m", "bounded.native", outfile, tier] + list(mods), 900)
    except subprocess.TimeoutExpired:
        return dict(error="native contract phase exceeded 900s")
    if not os.path.exists(outfile):
        return dict(error=f"native contract phase crashed (exit {p.returncode}): {(p.stdout + p.stderr)[-1500:]}")
    return json.load(open(outfile))


def main():
    ap = argparse.ArgumentParser()
    ap.add_argument("prop")
    ap.add_argument("--tier", default=os.environ.get("VERIF_TIER", "quick"))
    ap.add_argument("--replay")
    ap.add_argument("--jobs", type=int, default=int(os.environ.get("VERIF_JOBS", "16")))
    a = ap.parse_args()
    prop = a.prop
    tier = a.tier if a.tier in ("quick", "thorough") else "quick"
    seed = int(os.environ.get("VERIF_SEED", "1") or 1)
    if prop not in PROPS:
        print(f"unknown property {prop}")
        sys.exit(3)
    cfg = PROPS[prop]
    if a.replay:
        code, msg = native_replay(a.replay)
        print(msg)
        if code == 1:
            print(f"VIOLATION property={prop} replay={a.replay}")
        sys.exit(code if code in (0, 1) else 3)
    t0 = time.time()
    findings = load_findings()
    violations = []  # (text, replay path, known finding or None)
    broken = []
    warnings = []
    # ------------------------------------------------------------------ tier P
    P = None
    phases = os.environ.get("VERIF_PHASES", "PNB")  # development aid: run only some phases (evidence is then partial)
    try:
        P = tier_p(prop, cfg, tier, a.jobs) if "P" in phases else None
    except Exception:  # noqa: BLE001
        broken.append("tier P crashed:\n" + traceback.format_exc())
    B = None
    need_b_for = []
    if P:
        for fkey, tb in P["crash"]:
            broken.append(f"pyvc crashed on {fkey}:\n{tb}")
        for fkey, why in P["drift"]:
            warnings.append(f"WARNING drift: {fkey}: {why} -- obligations of this function are undecided; falling back to its bounded contract check")
            need_b_for.append(fkey)
        for fkey, o in P["unknown"]:
            print(f"UNDECIDED obligation={o['name']} backend={o['backend']} solver_s={o['s']} small_scope={o.get('small_scope')}")
            need_b_for.append(fkey)
        if P["obligations"] == 0 and not P["drift"] and cfg.get("expect_obligations", True):
            broken.append("tier P generated zero obligations (vacuous)")
        base = cfg.get("min_obligations", 0)
        if P["obligations"] < base and not P["drift"]:
            broken.append(f"tier P generated {P['obligations']} obligations, fewer than the {base} recorded for the unchanged tree")
        P["_vacuity_candidates"] = [fkey for fkey, pf in P["per_function"].items()
                                    if pf["status"] == "proved" and pf["obligations"] and pf["reachable_returns"] == 0 and fkey in P["functions"]]
    # ------------------------------------------------------------------ tier B
    try:
        B = tier_b(prop, cfg, tier, seed) if "B" in phases else None
    except Exception:  # noqa: BLE001
        broken.append("tier B crashed:\n" + traceback.format_exc())
    if B and B.get("error"):
        broken.append(B["error"])
        B = None
    N = None
    try:
        N = tier_n(prop, cfg, tier) if "N" in phases else None
    except Exception:  # noqa: BLE001
        broken.append("native contract phase crashed:\n" + traceback.format_exc())
    if N and N.get("error"):
        broken.append(N["error"])
        N = None
    if N and N.get("test_suite_exit") not in (0, None):
        warnings.append(f"WARNING the repository's own test-suite did not pass with the contract wrappers installed (pytest exit {N['test_suite_exit']})")
    if P:
        for fkey in P.get("_vacuity_candidates", []):
            if not (N and N["checked"].get(fkey, 0) > 0):
                warnings.append(f"WARNING vacuity: no return path of {fkey} shown reachable under its requires (no symbolic cover model, no native call that satisfied the requires)")
    # ------------------------------------------------------------------ refuted obligations
    if P:
        for fkey, kind, o in P["sat"]:
            doc = dict(property=prop, kind="obligation", contract=fkey, obligation=o["name"], clause=o.get("note"),
                       backend=o["backend"], result="sat", solver_s=o["s"], model=o.get("model"), sidecars=cfg["sidecars"],
                       scope=o.get("scope"))
            code, msg = (2, "lemma: no code to execute") if kind == "lemma" else native_replay(write_replay(prop, doc))
            doc["native_replay"] = dict(code=code, message=msg)
            tail = ""
            if code != 1:
                # look for a failing input of this function among the tier B violations
                hit = None
                if B:
                    for v in B.get("violations", []):
                        if fkey.split(".")[-1] in json.dumps(v.get("call", "")) or fkey in v.get("check", ""):
                            hit = v
                            break
                if hit:
                    doc["tierB_input"] = hit
                else:
                    tail = " no-failing-input-found"
            path = write_replay(prop, doc)
            kf = finding_for(findings, prop, o["name"].split("@")[0], ["obligation"])
            violations.append((f"obligation {o['name']} refuted ({msg})", path + tail, kf))
    if B:
        for v in B.get("violations", []):
            if v["check"] == "driver-precondition":
                broken.append(f"tier B driver bug: {v['what']} {v['call']}")
                continue
            doc = dict(property=prop, kind="tierB", driver=cfg["driver"], check=v["check"], what=v["what"], call=v["call"], events=v.get("events", []), sidecars=cfg["sidecars"])
            path = write_replay(prop, doc)
            kf = finding_for(findings, prop, v["check"], v.get("events", []))
            violations.append((f"{v['check']}: {v['what']}", path, kf))
    if N:
        for v in N.get("violations", []):
            doc = dict(property=prop, kind="native", contract=v["contract"], check="native-contract", violation=v["kind"], clause=v["clause"], detail=v["detail"], sidecars=cfg["sidecars"],
                       what="contract evaluated natively on the real function while the repository's tests / the operation corpus ran")
            path = write_replay(prop, doc)
            kf = finding_for(findings, prop, "native-contract:" + v["contract"], [v["kind"]])
            violations.append((f"native contract {v['contract']}: {v['kind']}: {v['clause']} {v['detail'][:200]}", path, kf))
    # ------------------------------------------------------------------ report
    for w in warnings:
        print(w)
    known_seen = {}
    new = []
    for text, path, kf in violations:
        if kf:
            known_seen.setdefault(kf["id"], (kf, text))
        else:
            new.append((text, path))
    for fid, (kf, text) in known_seen.items():
        print(f"KNOWN-FINDING: property={prop} {kf['what']} [{fid}] (e.g. {text[:160]})")
    stale = [f["id"] for f in findings["findings"] if f["property"] == prop and f["id"] not in known_seen]
    for n_, (text, path) in enumerate(new):
        if n_ >= 12:
            print(f"  ... and {len(new) - 12} more violations (replay files under {REPLAYS})")
            break
        print(f"  violated: {text[:400]}")
        print(f"VIOLATION property={prop} replay={path}")
    # ------------------------------------------------------------------ evidence
    level = cfg["level"]
    cov = {}
    if P:
        cov.update(
            obligations=P["obligations"], discharged=P["discharged"],
            checker_cmd=f"./check {prop} --tier {tier}  (pyvc: ast -> VCs from /repo source; z3 API, cvc5/z3-4.8 CLI for unknowns)",
            trusted_base=[ASSUMPTIONS["Z3"], ASSUMPTIONS["PYVC"], "CPython"] + P["trusted"] + P["axioms"],
            functions_under_contract=P["functions"], lemmas=P["lemmas"], per_function=P["per_function"], backends=P["backends"],
            solver_s=P["solver_s"], tierP_wall_s=P["wall_s"], reachable_return_paths=P["covers_reachable"], return_paths=P["covers"],
            solver_stages=P.get("stages"),
            undecided=[o["name"] for _, o in P["unknown"]], drift=[f"{k}: {w}" for k, w in P["drift"]],
            refuted=[o["name"] for _, _, o in P["sat"]],
        )
    samples = list(P["samples"]) if P else []
    if B:
        cov.update(evaluations=B["evaluations"], distinct_nontrivial=B["distinct_nontrivial"], rule=B.get("rule", ""),
                   bounds=B.get("bounds"), exhaustive=bool(B.get("exhaustive")), tierB_counters=B.get("counters"), tierB_wall_s=B.get("wall_s"))
        samples += B.get("samples", [])
    if N:
        cov.update(native_contract_calls=N["hits"], native_contract_calls_checked=N["checked"], native_invariant_checks=N.get("invariant_checks"),
                   native_workloads=N["workloads"], native_never_called=[k for k, v in N["hits"].items() if not v], native_unresolved=N.get("unresolved"))
    cov["samples"] = samples or ["(no sample)"]
    cov["explanation"] = cfg["explanation"]
    cov["known_findings_seen"] = sorted(known_seen)
    cov["known_findings_stale"] = stale
    cov["proved_functions"] = [k for k, v in (P["per_function"].items() if P else []) if v["status"] == "proved" and v["obligations"]]
    cov["bounded_only"] = cfg.get("bounded_only", [])
    ev = dict(property_id=prop, tier=tier, seed=seed, level=level, coverage=cov,
              assumptions=[ASSUMPTIONS[x] for x in cfg.get("assumptions", [])] + cfg.get("extra_assumptions", []),
              wall_s=round(time.time() - t0, 2), violations=len(new))
    evdir = os.path.join(ROOT, "evidence") if not ALT else os.path.join(OUT, "evidence")
    os.makedirs(evdir, exist_ok=True)
    with open(os.path.join(evdir, f"{prop}.json"), "w") as f:
        json.dump(ev, f, indent=1, default=str)
    if P:
        print(f"tier P: {P['discharged']}/{P['obligations']} obligations discharged over {len(P['functions'])} functions + {len(P['lemmas'])} lemmas, solver {P['solver_s']}s, wall {P['wall_s']}s")
    if N:
        print(f"native contracts: {sum(N['checked'].values())} checked calls of {len([k for k, v in N['hits'].items() if v])}/{len(N['hits'])} contracted functions ({sum(N['hits'].values())} calls seen), "
              f"{sum((N.get('invariant_checks') or {}).values())} constructor invariant checks, {len(N['violations'])} failures, wall {N['wall_s']}s")
    if B:
        print(f"tier B: {B['evaluations']} evaluations, {B['distinct_nontrivial']} distinct non-trivial, {len(B.get('violations', []))} contract/oracle failures, wall {B.get('wall_s')}s")
    if broken:
        for b in broken:
            print("CHECKER-BROKEN:", b)
        sys.exit(3)
    sys.exit(1 if new else 0)


if __name__ == "__main__":
    main()
