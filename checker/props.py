"""Per-property configuration of the checks."""

PROPS = {
    "C08": dict(
        sidecars=["contracts.transform_map"],
        driver="c08",
        level="proof",
        level_text=(
            "Deductive: every function of transform/map.py is verified against a sidecar contract for all step maps, "
            "positions and sides (unbounded ints and lists); the property's clauses (documented rule, flags, recover "
            "values, for_each enumeration, composition, append/invert/slice) are post-conditions. The mirror round "
            "trip and monotonicity are lemmas over the contracts where proved, otherwise checked exhaustively on all "
            "maps with <= 3 ranges by the bounded cross-check (labelled bounded in the evidence)."
        ),
        level_note=(
            "Trusted: z3/cvc5 `unsat`, pyvc's encoding of the Python subset (assumptions A1-A10 listed in evidence), "
            "exact true division below 2^53, list-valued fields modelled as owned values. Requires clauses (well-formed "
            "ranges, mirror pairs of equal shape, <= 65536 ranges) are assumptions about callers."
        ),
        technique="contract-based deductive verification (pyvc VCs from source -> z3) + bounded runtime-contract cross-check",
        shards={"StepMap._map": 8, "Mapping.append_mapping": 4, "Mapping.append_mapping_inverted": 4, "Mapping._map": 8},
        assumptions=["A1", "A2", "A3", "A4", "A5", "A6", "A8", "A10", "H1", "Z3", "PYVC"],
        explanation=(
            "Every function of prosemirror/transform/map.py is under a sidecar contract; pyvc re-reads the file, "
            "generates verification conditions (post-conditions per return path, loop invariants on entry/preserved, "
            "subscript safety, callee preconditions, frame of every heap write) and discharges them with z3 for all "
            "ranges lists, positions and association sides (no bound). The bounded driver cross-checks the same "
            "contract text natively on every small map against an independent reference and a token oracle."
        ),
    ),
}


def _bounded(prop, driver, what, sidecars=(), assumptions=(), level="exploration"):
    return dict(
        sidecars=list(sidecars),
        driver=driver,
        level=level,
        expect_obligations=bool(sidecars),
        level_text=(
            "Bounded stand-in, NOT a proof: " + what + " Nothing deductive is claimed for this property yet beyond "
            "the obligations listed in the evidence (if any); the evidence lists what is proved and what is bounded."
        ),
        level_note="Trusted: the independent oracle in /verif/spec (tokens, schema validity from the spec strings), CPython, the stated bounds.",
        technique="bounded runtime-contract / oracle check (stand-in for contract-based deductive verification; obligations listed in evidence where discharged)",
        assumptions=["PYVC", "Z3"] + list(assumptions) if sidecars else [],
        extra_assumptions=["bounded: documents <= ~26 tokens from a fixed corpus + seeded generator; sampled ranges where stated"],
        explanation=what,
        bounded_only=[prop],
    )


def _hybrid(prop, driver, sidecars, proved, bounded, assumptions=("A1", "A4", "A5", "A6", "A10", "Z3", "PYVC"), min_obligations=1, shards=None, bounded_only=()):
    return dict(
        sidecars=list(sidecars),
        driver=driver,
        level="other",
        min_obligations=min_obligations,
        shards=shards or {},
        assumptions=list(assumptions),
        extra_assumptions=["bounded part: documents <= ~26 tokens from a fixed corpus + seeded generator; sampled ranges where stated"],
        level_text="Hybrid. Deductive (for all inputs, discharged on every run): " + proved + " Bounded stand-in (NOT proved): " + bounded,
        level_note="Trusted: z3 unsat, pyvc encoding (assumptions in evidence), contracts marked trusted in the sidecars (listed in evidence), the independent oracle for the bounded part.",
        technique="contract-based deductive verification (pyvc VCs from source -> z3) of the functions listed in evidence + bounded runtime-contract / oracle check for the rest",
        explanation="Tier P: " + proved + " Tier B: " + bounded,
        bounded_only=list(bounded_only),
    )


PROPS.update({
    "C01": _hybrid("C01", "c01", ["contracts.model_replace"],
                   "the validation points and the failure flow the property names: close() (the only place replace builds a node around new content) returns a node of the same type / attributes / marks exactly when the new child sequence is valid for that type and raises ReplaceError otherwise; "
                   "check_join / joinable raise exactly on incompatible content; replace() raises ReplaceError for an inverted range, content deeper than the insertion position or inconsistent open depths; Node.replace / Node.resolve report out-of-range positions with ValueError and index nothing; "
                   "insert_into / Slice.insert_at (where a replace-around step drops its gap content) return a fragment exactly when the landing node -- found by descending along the child that holds the offset -- is incomplete (slice top level / open side) or accepts the content there; "
                   "DEEP VALIDITY of the rebuild: with dvalid(n) = the node's children match its content expression to a valid end, carry allowed marks and are themselves dvalid, "
                   "Fragment.append (size equation, text merge) and Fragment.cut (at child boundaries / inside text), add_node / add_range / replace_two_way (every deletion) replace_three_way (rebuild around an open slice) and replace_outer (all four branches) keep deep validity, hence Node.replace, StepResult.from_replace and ReplaceStep.apply return a deeply valid document "
                   "whenever the input document is deeply valid, the nodes of a closed slice are, and the slice wrapped in copies of the insertion point's ancestors (prepare_slice_for_replace, trusted) is a deeply valid tree -- or raise / fail; "
                   "StepResult.from_replace turns every ReplaceError into a failed result (failed xor doc); ReplaceStep.apply / ReplaceAroundStep.apply fail when a structure step would overwrite content and when the gap is not flat; content_between terminates and indexes safely.",
                   "that the document a step returns is valid at every node (oracle validity) for all eight step kinds, directly and through JSON, with well-formed and malformed (out-of-range, out-of-order) positions, nested / open wrapper slices; replace_outer / replace_two_way / replace_three_way recursion is outside the proved set (trusted contracts listed in the evidence).",
                   assumptions=("A1", "A4", "A5", "A6", "A9", "A10", "Z3", "PYVC"), min_obligations=800, shards={"ReplaceAroundStep.apply": 4, "insert_into": 4, "add_range": 16, "add_node": 4, "replace_outer": 8, "replace_two_way": 2, "Fragment.cut": 8, "Fragment.append": 4, "replace_three_way": 8},
                   bounded_only=["prepare_slice_for_replace (depths of the two open ends in the wrapped slice): trusted contract, evaluated natively; open slices whose spine nodes are not valid by themselves (partial nodes) are outside the proved statement", "remove_range", "canonical mark order at every node", "ReplaceAroundStep: validity of the slice after the gap content is dropped in", "mark / attribute / node-mark step apply bodies", "Step.from_json decoding"]),
    "C02": _hybrid("C02", "c02", ["contracts.model_replace"],
                   "the size / index algebra replace and slice are built from: Fragment.__init__ (size == sum of child sizes, class invariant proved at every construction), find_index (offset == prefix sum, "
                   "position at the boundary or strictly inside the child selected by the rounding side, termination), cut_by_index, replace_child, add_to_start, add_to_end (content and size), child / maybe_child / first_child / last_child, node_size, "
                   "with the prefix-sum lemmas proved by induction; the join and validation points of replace: close (rebuilt node valid at its level or ReplaceError), check_join / joinable / NodeType.compatible_content (raise exactly on incompatible content), "
                   "replace() guards (inverted range, slice open deeper than its content, depth mismatch), Node.replace range errors; "
                   "deep validity of the rebuild (add_node, add_range, replace_two_way, replace_outer, Node.replace: a deeply valid document stays deeply valid, including the three-way rebuild around open slices, relative to the trusted prepare_slice_for_replace contract; see C01).",
                   "that Node.slice / Node.replace are exactly a splice of the flat token sequence (token oracle for every range of small documents and a pool of foreign slices); replace_outer / replace_two_way / replace_three_way / close / join recursion is outside the proved set.",
                   assumptions=("A1", "A4", "A5", "A6", "A7", "A9", "A10", "Z3", "PYVC"), min_obligations=750,
                   shards={"add_range": 16, "add_node": 4, "replace_outer": 8, "replace_two_way": 2, "Fragment.cut": 8, "Fragment.append": 4, "replace_three_way": 8},
                   bounded_only=["token-level splice semantics of Node.replace / Node.slice", "Fragment.from_array (text merging); token content of Fragment.cut / append", "schema validity of the result"]),
    "C03": _hybrid("C03", "c03", ["contracts.transform_steps", "contracts.model_replace"],
                   "the size clause for deletions: a ReplaceStep with an empty slice that applies shrinks the document by exactly to - from, which is what its map [from, to - from, 0] says "
                   "(ReplaceStep.apply <- from_replace <- Node.replace <- replace_outer <- replace_two_way / add_range / add_node with exact size accounting; resolved positions with prefix-sum offsets); "
                   "the size clause for flat insertions: a closed slice put between two positions of one parent changes the document's size by exactly slice.size - (to - from), what the map [from, to - from, slice.size] says "
                   "(Fragment.cut flat size, Fragment.append size; the shape resolve finds is named by rdepth / ridx, a naming assumption evaluated natively against an independent walk); "
                   "the shape of every step's map (ReplaceStep / ReplaceAroundStep.get_map ranges from the step's fields, empty map for attribute / mark steps), "
                   "Transform.add_step records exactly one map per step, StepMap._map / for_each obey the documented rule (from C08).",
                   "faithfulness of the map to the document change (size delta, tokens at mapped positions) for every applied step of histories and primitive steps; it rests on the splice behaviour of replace (C02).",
                   min_obligations=700, shards={"StepMap._map": 8, "add_range": 16, "add_node": 4, "replace_outer": 8, "ResolvedPos.resolve": 4}, bounded_only=["token-level faithfulness of the map", "size clause for open slices, the three-way branch and replace-around steps"]),
    "C04": _hybrid("C04", "c04", ["contracts.transform_steps"],
                   "Transform.add_step / maybe_step / step keep steps, docs and maps aligned one-to-one, a rejected step changes nothing (frame), step() raises only TransformError; "
                   "ReplaceStep.invert's fields; lemmas: the inverted replace / replace-around step's map maps every position like the inverted map (complete unrolling); mark-step inverses swap add/remove.",
                   "replay and undo of whole histories, single-step undo, inverse maps on concrete steps.",
                   min_obligations=40, bounded_only=["exact undo / replay of histories (needs the splice semantics of replace)"]),
    "C09": _hybrid("C09", "c09", ["contracts.model_core", "contracts.model_pos"],
                   "ResolvedPos.resolve establishes the representation invariant of a resolved position for every document and every position 0..size (raises exactly outside; terminates): one [node, index, offset] triple per level, "
                   "each level's node is the indexed child of the level above, each offset is the prefix sum of child sizes (the flat token position of that child boundary), the position is at the last boundary or strictly inside the text child starting there, "
                   "parent_offset is the distance to the parent's content start. From that invariant: node, index, index_after, start, end, before, after, text_offset, parent, doc, pos_at_index, shared_depth, same_parent, resolve_depth and "
                   "NodeRange.parent / start_index / end_index / start / end return exactly the path-derived values. Fragment.find_index, child / maybe_child (None exactly outside 0..n-1), first_child / last_child, node_size as for C02.",
                   "node_before / node_after (text cutting), marks(), block_range, node_at, nodes_between, text_between (UTF-16), range_has_mark against an oracle tree for every position / pair of positions; that the path-derived values are the flat-token values.",
                   assumptions=("A1", "A2", "A4", "A5", "A6", "A7", "A10", "Z3", "PYVC"), min_obligations=220, shards={"ResolvedPos.resolve": 8},
                   bounded_only=["node_before / node_after / marks() / block_range", "nodes_between / text_between / range_has_mark / node_at", "token-level reading of the path (oracle)"]),
    "C11": _hybrid("C11", "c11", ["contracts.model_pos"],
                   "three helpers the replace family relies on: covered_depths (range expansion of replace_range / delete_range: only depths free of isolating nodes on both sides, within the common depth), "
                   "NodeType.allowed_marks (exactly the marks the target parent allows, in order: what place_nodes / clear_incompatible use to strip marks), Mark.add_to_set.",
                   "7 replace-family operations x ranges x payload-valid slices: totality (2 s alarm), oracle validity, prefix/suffix preservation, no invented content. The Fitter (fit / find_fittable / place_nodes / close_frontier_node ...) mutates its own frontier through helpers and has no termination measure (see known finding): outside the proved set.",
                   min_obligations=90, shards={"Mark.add_to_set": 4, "NodeType.allowed_marks": 2},
                   bounded_only=["Fitter", "replace_range / delete_range / insert / replace_with control flow", "validity and content preservation of the result"]),
    "C12": _hybrid("C12", "c12", ["contracts.model_pos"],
                   "can_cut (== both partial replacements are accepted by the parent's content automaton), lift_target (result in range, only through non-isolating ancestors), Fragment / Node.maybe_child (None exactly outside 0..n-1: what join_point relies on at index 0), "
                   "Node.can_replace / can_replace_with / can_append (== automaton run, from C07).",
                   "helper approvals (split, join, join_point, lift, wrap, insert_point, drop_point) followed by the edit: must succeed, stay valid, keep the leaf sequence.",
                   assumptions=("A1", "A4", "A5", "A6", "A10", "Z3", "PYVC"), min_obligations=150, shards={"lift_target": 2, "Node.can_replace": 2},
                   bounded_only=["approve => perform succeeds (whole-document property)", "can_split, can_join, join_point, find_wrapping, insert_point, drop_point bodies"]),
    "C13": _hybrid("C13", "c13", ["contracts.transform_steps"],
                   "the per-node mark-set transformation the mark steps apply: Mark.add_to_set is exactly the documented rule (unchanged if an equal mark is present or a present mark excludes the new one, otherwise the excluded marks removed and the mark inserted at its rank), "
                   "remove_from_set / is_in_set / MarkType.is_in_set / remove_from_set are the set operations over (type, attributes), NodeType.allows_mark_type is the parent's permission table; AddMarkStep / RemoveMarkStep.map keep the mark and map the range ends with the documented sides.",
                   "that add_mark / remove_mark / node-mark / attribute / retyping operations change exactly the addressed inline content (per-token mark oracle incl. an exclusion-variant schema): AddMarkStep.apply / RemoveMarkStep.apply (map_fragment closures) and the step planning in Transform.add_mark / remove_mark are outside the proved set.",
                   min_obligations=85, bounded_only=["AddMarkStep.apply / RemoveMarkStep.apply (closures)", "Transform.add_mark / remove_mark planning", "set_block_type / set_node_markup / node-level edits"]),
    "C14": dict(
        sidecars=["contracts.model_mark"],
        driver="c14",
        level="other",
        shards={"Mark.add_to_set": 4, "NodeType.allowed_marks": 2},
        min_obligations=80,
        assumptions=["A1", "A4", "A5", "A6", "A10", "Z3", "PYVC"],
        extra_assumptions=["Mark.set_from (Union-typed parameter, sorted()) and the compilation of excludes / marks declarations in Schema.__init__ are outside the subset: bounded only",
                           "canonical form of the result (rank order, no duplicates) is not a discharged obligation: it is checked by the bounded driver on every reachable set"],
        level_text=(
            "Hybrid. Deductive (unbounded): Mark.add_to_set, remove_from_set, is_in_set, eq, same_set, MarkType.excludes / is_in_set / "
            "remove_from_set, NodeType.allows_mark_type / allows_marks / allowed_marks are proved equal to recursive specification "
            "functions (the documented add rule as a scan; filters; membership) for all mark lists and exclusion relations, with the "
            "needed induction lemmas proved separately. Bounded: the same contract text is evaluated natively and compared with an "
            "independent set-theoretic oracle on every mark configuration with <= 4 types and every reachable set; canonical form of "
            "results and schema compilation are bounded only."
        ),
        level_note="Trusted: z3 unsat, pyvc encoding (A1,A4-A6,A10), adequacy of the spec functions (cross-checked natively against the oracle).",
        technique="contract-based deductive verification (pyvc -> z3) of the mark algebra + bounded oracle cross-check of the same contracts",
        explanation=(
            "Obligations: post-conditions per return path, loop invariants (entry / preserved) of the real loops and of the "
            "comprehension / any / all / next desugarings, frame (mutation only of freshly allocated lists), callee preconditions; "
            "lemmas by induction over the list index. The bounded driver evaluates the same contracts natively and an independent oracle."
        ),
        bounded_only=["canonical form of results", "Mark.set_from", "schema compilation of excludes/marks"],
    ),
    "C05": _hybrid("C05", "c05", ["contracts.transform_json"],
                   "the published JSON shape of all eight step classes: to_json returns exactly the documented keys (stepType name, positions, gap, insert; `slice` present exactly when the slice content is non-empty, `structure` exactly when set, independently of each other; "
                   "attribute values deep-copied) with the step's own field values, and from_json applied to each of those record shapes (a real JSON encode / decode is the identity on such plain records: assumed) gives back the same integer / string / flag fields, "
                   "Slice.empty for an absent slice.",
                   "documents, fragments, slices, marks and steps through json.dumps / loads: equality, identical re-serialisation, same effect and map, no aliasing; registry names; compute_attrs and the Node / Mark / Slice JSON forms (dictionary-valued code outside the verifier's kinds).",
                   assumptions=("A1", "A4", "A5", "A6", "A10", "Z3", "PYVC"), min_obligations=130,
                   bounded_only=["Node / Fragment / Mark / Slice to_json / from_json", "compute_attrs (explicit None, defaults)", "equality of decoded marks and slices", "step registry", "JSON encode / decode identity on plain records (assumed)"]),
    "C06": _bounded("C06", "c06", "per content expression (all syntax trees to a size bound, random larger, malformed token strings) the compiled matcher is compared with an independent derivative automaton by a product construction: acceptance and liveness for ALL child sequences of that expression. No contract within reach expresses this for all expressions (nfa/dfa are closures over shared mutable lists)."),
    "C07": _hybrid("C07", "c07", ["contracts.model_content"],
                   "ContentMatch.match_type / match_fragment (== the automaton run), compatible, edge; Node.content_match_at, can_replace (== run over children[:from] + replacement[start:end] + children[to:] to a valid end, inserted marks allowed; raises exactly when the prefix does not match), "
                   "can_replace_with, can_append, NodeType.valid_content, compatible_content, allows_marks: every predicate is tied to the compiled automaton and the mark permission table for all nodes, ranges and fragments.",
                   "agreement of the compiled automaton with the content expression (that is C06) and Node.check / create_checked against validity computed from the schema spec strings.",
                   min_obligations=150, bounded_only=["Node.check (recursive closure)", "create_checked (polymorphic content argument)", "expression vs automaton (C06)"]),
    "C15": _hybrid("C15", "c15", ["contracts.model_content"],
                   "the three building blocks of filling and wrapping: ContentMatch.match_type (first edge with that type name), match_fragment (== the automaton run over the children), default_type (the first edge whose type is generatable: not text, no required attributes).",
                   "fill_before / create_and_fill / find_wrapping on every reachable match state of 11 schemas against BFS oracles over independent automata (soundness, completeness, shortest chain, cache consistency). fill_before and compute_wrapping are a recursive closure with a shared `seen` list and a BFS over dict records: outside the verifiable subset.",
                   min_obligations=40, bounded_only=["fill_before (closure)", "compute_wrapping / find_wrapping (BFS over dict records, cache)", "create_and_fill"]),
    "C19": _bounded("C19", "c19", "HTML fragments from a grammar + fixed edge cases: parse terminates and is oracle-valid; serialisation succeeds and escapes; whitespace-normal documents round-trip; context rules vs an oracle matcher. lxml, CSS selectors and regular expressions are outside any contract the verifier can discharge."),
    "C10": dict(
        sidecars=[],
        frames=True,
        driver="c10",
        level="other",
        min_obligations=150,
        assumptions=["PYVC"],
        extra_assumptions=[
            "frame discipline is intraprocedural and flow-insensitive: a local counts as fresh when every assignment to it is a fresh allocation; aliasing through containers is not tracked",
            "user callbacks do not mutate; no setattr/__dict__ (scanned every run)",
            "from_dom.py / to_dom.py working state (parser contexts, parse rules, the caller's lxml tree) is outside the frame analysis; their effect on documents is covered by the bounded driver only",
            "Mapping.slice deliberately shares the maps list with the original (documented accumulator semantics)",
            "the allow-list of modifiable locations (Transform, Mapping, Fitter, TokenStream, schema construction, NFA/DFA builders, wrap_cache) is in pyvc/frames.py",
        ],
        level_text=(
            "Hybrid. Deductive (ownership / frame obligations, all paths, all inputs): every heap write site in model/ (without the DOM "
            "modules) and transform/ -- attribute stores, subscript stores, mutating method calls -- is shown to target a freshly allocated "
            "object, the object under construction or a declared accumulator; to_json never hands out live attribute objects; "
            "Mapping.copy captures fresh lists. Bounded: canonical dumps of every live document, slice, mark list, step and map and of "
            "the shared singletons before and after batches of every kind of library operation."
        ),
        level_note="Trusted: the frame analysis (AST-level, assumptions listed in evidence), CPython; the bounded snapshot driver for everything the analysis excludes.",
        technique="frame / ownership obligations per write site (contract-style modifies clauses checked on the real AST) + bounded snapshot check",
        explanation="One obligation per write site of the library source (re-read every run); a write to anything but a fresh object, the object under construction or a declared modifiable location fails its obligation. The bounded driver re-dumps all live values after operation batches.",
        bounded_only=["DOM conversion working state", "aliasing through containers"],
    ),
    "C16": _hybrid("C16", "c16", ["contracts.transform_steps"],
                   "ReplaceStep.merge and Add/RemoveMarkStep.merge return a step only under the documented adjacency / overlap conditions, with the union range and (for replace) a slice whose size is the sum of the two, else None.",
                   "equality of the merged step's result with the two steps' result on documents (needs the splice semantics of replace and Fragment.append's content).",
                   min_obligations=40, bounded_only=["document-level equivalence of merged and sequential application"]),
    "C17": _hybrid("C17", "c17", ["contracts.transform_steps"],
                   "every step class's map(mapping): dropped exactly under the documented deletion-flag condition, otherwise positions are the mapped ones with the documented association sides and the payload is unchanged; StepMap._map's contract (C08).",
                   "that both orders of two separated rebased steps apply and give equal documents.",
                   min_obligations=100, shards={"StepMap._map": 8}, bounded_only=["commutation of the two application orders"]),
    "C18": _hybrid("C18", "c18", ["contracts.model_pos"],
                   "covered_depths returns only depths that are free of isolating nodes on both sides down to the innermost common depth (range expansion of replace_range / delete_range never passes an isolating boundary); "
                   "Slice.max_open(open_isolating=False) opens no isolating node on either spine; lift_target returns only depths reached through non-isolating ancestors.",
                   "every range inside every isolating node x replace-family operations: tokens outside the node unchanged; lift_target / can_split do not cross (the fitter itself is outside the proved set).",
                   assumptions=("A1", "A4", "A5", "A6", "A9", "A10", "Z3", "PYVC"), min_obligations=200, shards={"Slice.max_open": 4, "lift_target": 2},
                   bounded_only=["Fitter (replace_step) behaviour at isolating boundaries", "can_split"]),
    "C20": _hybrid("C20", "c20", ["contracts.model_diff"],
                   "find_diff_start and find_diff_end, whole bodies: both terminate (variant on every back-edge including `continue`, recursion on a strictly smaller fragment), index safely, "
                   "return None exactly when the fragments are equal (the recursive definition of Node.eq / Fragment.eq) and otherwise exactly the position given by the recursive first-difference / last-difference "
                   "specification (descending only into nodes with identical markup; text compared by UTF-16 units, with the startswith shortcuts and the byte-pair scan shown equal to the first differing unit).",
                   "that the recursive first / last difference specification is the longest common prefix / suffix of the flat token sequences (token oracle on equal copies and on (document, edited document) pairs sharing sub-trees, incl. astral text; 2 s alarm).",
                   assumptions=("A1", "A4", "A5", "A6", "A7", "A9", "A10", "Z3", "PYVC"), min_obligations=200,
                   shards={"find_diff_start": 16, "find_diff_end": 14},
                   bounded_only=["agreement of the recursive specification with the flat token picture", "UTF-16 encoding facts (axioms ub-len, ub-prefix), finite-tree axiom, TextNode type invariants: trusted in tier P, evaluated natively"]),
})

NOT_APPLICABLE = {}
