"""Per-property configuration of the checks."""

PROPS = {
    "C08": dict(
        sidecars=["contracts.transform_map"],
        driver="c08",
        level="proof",
        level_text=(
            "Deductive: every function of transform/map.py is verified against a sidecar contract for all step maps, "
            "positions and sides (unbounded ints and lists); the property's clauses (documented rule, flags, recover "
            "values, for_each enumeration, composition, append/invert/slice) are post-conditions. The mirror round "
            "trip and monotonicity are lemmas over the contracts where proved, otherwise checked exhaustively on all "
            "maps with <= 3 ranges by the bounded cross-check (labelled bounded in the evidence)."
        ),
        level_note=(
            "Trusted: z3/cvc5 `unsat`, pyvc's encoding of the Python subset (assumptions A1-A10 listed in evidence), "
            "exact true division below 2^53, list-valued fields modelled as owned values. Requires clauses (well-formed "
            "ranges, mirror pairs of equal shape, <= 65536 ranges) are assumptions about callers."
        ),
        technique="contract-based deductive verification (pyvc VCs from source -> z3) + bounded runtime-contract cross-check",
        shards={"StepMap._map": 8, "Mapping.append_mapping": 4, "Mapping.append_mapping_inverted": 4, "Mapping._map": 8},
        assumptions=["A1", "A2", "A3", "A4", "A5", "A6", "A8", "A10", "H1", "Z3", "PYVC"],
        explanation=(
            "Every function of prosemirror/transform/map.py is under a sidecar contract; pyvc re-reads the file, "
            "generates verification conditions (post-conditions per return path, loop invariants on entry/preserved, "
            "subscript safety, callee preconditions, frame of every heap write) and discharges them with z3 for all "
            "ranges lists, positions and association sides (no bound). The bounded driver cross-checks the same "
            "contract text natively on every small map against an independent reference and a token oracle."
        ),
    ),
}

NOT_APPLICABLE = {}
