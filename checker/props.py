"""Per-property configuration of the checks."""

PROPS = {
    "C08": dict(
        sidecars=["contracts.transform_map"],
        driver="c08",
        level="proof",
        shards={"StepMap._map": 8, "Mapping.append_mapping": 4, "Mapping.append_mapping_inverted": 4, "Mapping._map": 8},
        assumptions=["A1", "A2", "A3", "A4", "A5", "A6", "A8", "A10", "H1", "Z3", "PYVC"],
        explanation=(
            "Every function of prosemirror/transform/map.py is under a sidecar contract; pyvc re-reads the file, "
            "generates verification conditions (post-conditions per return path, loop invariants on entry/preserved, "
            "subscript safety, callee preconditions, frame of every heap write) and discharges them with z3 for all "
            "ranges lists, positions and association sides (no bound). The bounded driver cross-checks the same "
            "contract text natively on every small map against an independent reference and a token oracle."
        ),
    ),
}
