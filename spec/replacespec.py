"""Specification vocabulary for replace / step application (C01)."""
from spec.native import abstract, all_, any_, implies  # noqa: F401


@abstract
def cbetween(doc: "Node", f: int, t: int) -> bool:
    """name of content_between's answer (pure, deterministic)"""
    from prosemirror.transform.replace_step import content_between

    return content_between(doc, f, t)


@abstract
def sl_os(doc: "Node", f: int, t: int) -> int:
    """open depth at the start of doc.slice(f, t)"""
    return doc.slice(f, t).open_start


@abstract
def sl_oe(doc: "Node", f: int, t: int) -> int:
    return doc.slice(f, t).open_end
