"""Specification vocabulary for replace / step application (C01)."""
from spec.native import abstract, all_, any_, implies  # noqa: F401


@abstract
def cbetween(doc: "Node", f: int, t: int) -> bool:
    """name of content_between's answer (pure, deterministic)"""
    from prosemirror.transform.replace_step import content_between

    return content_between(doc, f, t)


@abstract
def sl_os(doc: "Node", f: int, t: int) -> int:
    """open depth at the start of doc.slice(f, t)"""
    return doc.slice(f, t).open_start


@abstract
def sl_oe(doc: "Node", f: int, t: int) -> int:
    return doc.slice(f, t).open_end


def bidx(c: "list[Node]", pos: int, k: int) -> int:
    """index Fragment.find_index reports for pos (rounding toward the start): the child that holds the
    position, or the boundary index when the position is exactly at a child boundary"""
    if k < 0 or k >= len(c):
        return len(c)
    if pre(c, k + 1) > pos:
        return k
    if pre(c, k + 1) == pos:
        return k + 1
    return bidx(c, pos, k + 1)


def ins_deeper(c: "list[Node]", dist: int, ins: "list[Node]", os_: int, oe: int) -> bool:
    """the gap content lands inside the child that holds dist: a child on an open side of the slice is
    still incomplete and is not checked; a closed child is checked against its own type"""
    if bidx(c, dist, 0) >= len(c):
        return False
    if (bidx(c, dist, 0) == 0 and os_ > 0) or (bidx(c, dist, 0) == len(c) - 1 and oe > 0):
        return ins_nochk(
            c[bidx(c, dist, 0)].content.content,
            dist - pre(c, bidx(c, dist, 0)) - 1,
            ins,
            os_ - 1 if (bidx(c, dist, 0) == 0 and os_ > 0) else 0,
            oe - 1 if (bidx(c, dist, 0) == len(c) - 1 and oe > 0) else 0,
        )
    return ins_chk(c[bidx(c, dist, 0)].content.content, dist - pre(c, bidx(c, dist, 0)) - 1, ins, c[bidx(c, dist, 0)].type, 0, 0)


def at_boundary(c: "list[Node]", dist: int) -> bool:
    """dist is a child boundary of c, or lies inside a text child"""
    return pre(c, bidx(c, dist, 0)) == dist or (bidx(c, dist, 0) < len(c) and c[bidx(c, dist, 0)].type.is_text)


def ins_chk(c: "list[Node]", dist: int, ins: "list[Node]", pt: "NodeType", os_: int, oe: int) -> bool:
    """whether gap content `ins` may be dropped at offset dist of the children c of a *complete* node of
    type pt: at a boundary the node must accept it there; otherwise it lands deeper"""
    if at_boundary(c, dist):
        return replace_ok(pt, c, bidx(c, dist, 0), bidx(c, dist, 0), ins, 0, len(ins))
    return ins_deeper(c, dist, ins, os_, oe)


def ins_nochk(c: "list[Node]", dist: int, ins: "list[Node]", os_: int, oe: int) -> bool:
    """the same for the children of a node that is still incomplete (slice top level or open side)"""
    if at_boundary(c, dist):
        return True
    return ins_deeper(c, dist, ins, os_, oe)


def fits_first(c: "list[Node]", k: int) -> bool:
    """the first-child spine below c has at least k nodes that can be open (non-leaf)"""
    if k <= 0:
        return True
    if len(c) == 0 or leaf_t(c[0].type):
        return False
    return fits_first(c[0].content.content, k - 1)


def fits_last(c: "list[Node]", k: int) -> bool:
    if k <= 0:
        return True
    if len(c) == 0 or leaf_t(c[len(c) - 1].type):
        return False
    return fits_last(c[len(c) - 1].content.content, k - 1)


def odfit(s: "Slice") -> bool:
    """the slice is not open deeper than its content"""
    return s.open_start >= 0 and s.open_end >= 0 and fits_first(s.content.content, s.open_start) and fits_last(s.content.content, s.open_end)


def dvalid(n: "Node") -> bool:
    """the node and everything below it is valid: its children match its type's content expression to
    a valid end, carry only marks the type allows, and are themselves deeply valid.  (A text node has
    no content; whether its marks are allowed is judged by its parent.)"""
    if n.type.is_text:
        return True
    return valid_seq(n.type, n.content.content) and fvalid(n.content.content)


def fvalid(c: "list[Node]") -> bool:
    """every node of the list is deeply valid"""
    return all_(0, len(c), lambda j: dvalid(c[j]))



@abstract
def prep_valid(s: "Slice", doc: "Node", pos: int) -> bool:
    """the slice content wrapped in copies of the ancestors of the insertion point pos of doc (what
    prepare_slice_for_replace builds) is a deeply valid tree"""
    from prosemirror.model.replace import prepare_slice_for_replace

    try:
        return dvalid(prepare_slice_for_replace(s, doc.resolve(pos))["start"].node(0))
    except Exception:  # noqa: BLE001
        return False
