"""Native (CPython) counterparts of the specification builtins understood by pyvc."""


def all_(lo, hi, f):
    return all(f(j) for j in range(lo, hi))


def any_(lo, hi, f):
    return any(f(j) for j in range(lo, hi))


def implies(a, b):
    return (not a) or bool(b)


def p3a(path, d):
    return path[3 * d]


def p3b(path, d):
    return path[3 * d + 1]


def p3c(path, d):
    return path[3 * d + 2]


def len3(path):
    return len(path) // 3


def prefix_of(a, b):
    return b[: len(a)] == a


def or_empty(x):
    return [] if x is None else x


def empty_int():
    return []


def empty_of(kind):
    return []


def is_none(x):
    return x is None


def bor(a, b):
    return a | b


def band(a, b):
    return a & b


def abstract(f):
    """marks a spec function that tier P treats as uninterpreted (its axioms are declared in
    the sidecar and listed as assumptions); the body is the native definition"""
    return f


def narrow(x, cname):
    """spec-level view of a value as an instance of a subclass (guarded by isinstance_* in the clause)"""
    return x


class _IsInstance:
    def __getattr__(self, name):
        raise AttributeError(name)


def _make_isinstance(cname):
    def f(x):
        return type(x).__name__ == cname or any(t.__name__ == cname for t in type(x).__mro__)

    return f


for _c in ("ReplaceStep", "ReplaceAroundStep", "AddMarkStep", "RemoveMarkStep", "AddNodeMarkStep", "RemoveNodeMarkStep", "AttrStep", "DocAttrStep", "TextNode"):
    globals()["isinstance_" + _c] = _make_isinstance(_c)


def _spec_flag(key):
    def f(t):
        return bool(t.spec.get(key))

    return f


for _k in ("isolating", "defining", "definingAsContext", "definingForContent", "code"):
    globals()["spec_" + _k] = _spec_flag(_k)
