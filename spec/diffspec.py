"""Specification vocabulary for document diffing (C20)."""
from spec.native import abstract, all_, any_, implies, prefix_of  # noqa: F401


@abstract
def ub(s: "str") -> "list[int]":
    """bytes of the UTF-16-LE encoding (two per code unit); A7: uninterpreted in tier P"""
    return list(s.encode("utf-16-le"))


@abstract
def wt(f: "Fragment") -> int:
    """number of nodes below a fragment: documents are finite trees (well-founded nesting)"""
    return sum(1 + wt(c.content) for c in f.content)


def unit_ne(p: "list[int]", q: "list[int]", k: int) -> bool:
    """the k-th UTF-16 units of two encodings differ"""
    return p[2 * k:2 * k + 2] != q[2 * k:2 * k + 2]


def fdu(p: "list[int]", q: "list[int]", k: int, n: int) -> int:
    """first unit index in k..n-1 at which the encodings differ, else n"""
    if k >= n:
        return n
    if unit_ne(p, q, k):
        return k
    return fdu(p, q, k + 1, n)


def tdiff(x: "str", y: "str") -> int:
    """length (in UTF-16 units) of the common prefix of two strings"""
    return fdu(ub(x), ub(y), 0, min(len(ub(x)), len(ub(y))) // 2)


def neq(x: "Node", y: "Node") -> bool:
    """node equality as Node.eq / TextNode.eq define it"""
    if x == y:
        return True
    if not same_markup_fn(x, y):
        return False
    if x.type.is_text:
        return x.text == y.text
    return feq(x.content.content, y.content.content)


def feq(a: "list[Node]", b: "list[Node]") -> bool:
    """fragment equality as Fragment.eq defines it"""
    return len(a) == len(b) and all_(0, len(a), lambda j: neq(a[j], b[j]))


def doff(a: "list[Node]", b: "list[Node]", i: int) -> int:
    """offset, counted from the start of child i, of the first token at which the two child
    sequences differ; -1 when they do not differ from child i on"""
    if i < 0 or i >= len(a) or i >= len(b):
        if len(a) == len(b) or i < 0:
            return -1
        return 0
    if a[i] == b[i]:
        return -1 if doff(a, b, i + 1) < 0 else nsize(a[i]) + doff(a, b, i + 1)
    if not same_markup_fn(a[i], b[i]):
        return 0
    if a[i].type.is_text and a[i].text != b[i].text:
        return tdiff(a[i].text, b[i].text)
    if doff(a[i].content.content, b[i].content.content, 0) >= 0:
        return 1 + doff(a[i].content.content, b[i].content.content, 0)
    return -1 if doff(a, b, i + 1) < 0 else nsize(a[i]) + doff(a, b, i + 1)


def unit_ne_end(p: "list[int]", q: "list[int]", k: int) -> bool:
    """the k-th UTF-16 units counted from the end differ"""
    return p[len(p) - 2 * k - 2:len(p) - 2 * k] != q[len(q) - 2 * k - 2:len(q) - 2 * k]


def fsu(p: "list[int]", q: "list[int]", k: int, n: int) -> int:
    """first k' in k..n-1 such that the k'-th units from the end differ, else n"""
    if k >= n:
        return n
    if unit_ne_end(p, q, k):
        return k
    return fsu(p, q, k + 1, n)


def tsuf(x: "str", y: "str") -> int:
    """length (in UTF-16 units) of the common suffix of two strings"""
    return fsu(ub(x), ub(y), 0, min(len(ub(x)), len(ub(y))) // 2)


def dend(a: "list[Node]", b: "list[Node]", ia: int, ib: int) -> int:
    """number of tokens, counted back from the end of a[:ia] (and of b[:ib]), after which the two
    child sequences agree; -1 when a[:ia] and b[:ib] do not differ"""
    if ia <= 0 or ib <= 0 or ia > len(a) or ib > len(b):
        if ia == ib or ia > len(a) or ib > len(b):
            return -1
        return 0
    if a[ia - 1] == b[ib - 1]:
        return -1 if dend(a, b, ia - 1, ib - 1) < 0 else nsize(a[ia - 1]) + dend(a, b, ia - 1, ib - 1)
    if not same_markup_fn(a[ia - 1], b[ib - 1]):
        return 0
    if a[ia - 1].type.is_text and a[ia - 1].text != b[ib - 1].text:
        return tsuf(a[ia - 1].text, b[ib - 1].text)
    if dend(a[ia - 1].content.content, b[ib - 1].content.content, len(a[ia - 1].content.content), len(b[ib - 1].content.content)) >= 0:
        return 1 + dend(a[ia - 1].content.content, b[ib - 1].content.content, len(a[ia - 1].content.content), len(b[ib - 1].content.content))
    return -1 if dend(a, b, ia - 1, ib - 1) < 0 else nsize(a[ia - 1]) + dend(a, b, ia - 1, ib - 1)
