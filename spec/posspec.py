"""Specification vocabulary for resolved positions and isolating boundaries (C09, C18)."""
from spec.native import abstract, all_, any_, implies  # noqa: F401


@abstract
def rp_node(rp: "ResolvedPos", d: int) -> "Node":
    """ancestor at depth d"""
    return rp.node(d)


@abstract
def rp_index(rp: "ResolvedPos", d: int) -> int:
    return rp.index(d)


@abstract
def rp_start(rp: "ResolvedPos", d: int) -> int:
    return rp.start(d)


@abstract
def rp_end(rp: "ResolvedPos", d: int) -> int:
    return rp.end(d)


@abstract
def rp_index_after(rp: "ResolvedPos", d: int) -> int:
    return rp.index_after(d)


def iso_at(rp: "ResolvedPos", d: int) -> bool:
    """the ancestor at depth d is of an isolating type"""
    return spec_isolating(rp_node(rp, d).type)


def spine_first(f: "Fragment", k: int) -> "Node":
    """k-th node along the first-child spine of a fragment"""
    if k <= 0:
        return f.content[0]
    return spine_first(f, k - 1).content.content[0]


def spine_last(f: "Fragment", k: int) -> "Node":
    if k <= 0:
        return f.content[len(f.content) - 1]
    return spine_last(f, k - 1).content.content[len(spine_last(f, k - 1).content.content) - 1]
