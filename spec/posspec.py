"""Specification vocabulary for resolved positions and isolating boundaries (C09, C18)."""
from spec.native import abstract, all_, any_, implies, len3, p3a, p3b, p3c  # noqa: F401


def rp_node(rp: "ResolvedPos", d: int) -> "Node":
    """ancestor at depth d (read off the resolved path: [node, index, offset] per level)"""
    return p3a(rp.path, d)


def rp_index(rp: "ResolvedPos", d: int) -> int:
    """index into the ancestor at depth d"""
    return p3b(rp.path, d)


def rp_start(rp: "ResolvedPos", d: int) -> int:
    """absolute position of the start of the content of the ancestor at depth d"""
    return 0 if d <= 0 else p3c(rp.path, d - 1) + 1


def rp_end(rp: "ResolvedPos", d: int) -> int:
    return rp_start(rp, d) + p3a(rp.path, d).content.size


def rp_toff(rp: "ResolvedPos") -> int:
    """offset into the text node the position points into (0 at a child boundary)"""
    return rp.pos - p3c(rp.path, rp.depth)


def rp_index_after(rp: "ResolvedPos", d: int) -> int:
    return p3b(rp.path, d) + (0 if (d == rp.depth and rp.pos == p3c(rp.path, rp.depth)) else 1)


def kids(rp: "ResolvedPos", d: int) -> "list[Node]":
    """children of the ancestor at depth d"""
    return p3a(rp.path, d).content.content


def iso_at(rp: "ResolvedPos", d: int) -> bool:
    """the ancestor at depth d is of an isolating type"""
    return spec_isolating(rp_node(rp, d).type)


def spine_first(f: "Fragment", k: int) -> "Node":
    """k-th node along the first-child spine of a fragment"""
    if k <= 0:
        return f.content[0]
    return spine_first(f, k - 1).content.content[0]


def spine_last(f: "Fragment", k: int) -> "Node":
    if k <= 0:
        return f.content[len(f.content) - 1]
    return spine_last(f, k - 1).content.content[len(spine_last(f, k - 1).content.content) - 1]


def _walk(doc, pos):
    """native reference walk (independent of ResolvedPos.resolve): index into each ancestor, outermost first"""
    out = []
    node, rem = doc, pos
    while True:
        kids_ = node.content.content
        off = i = 0
        while i < len(kids_) and off + kids_[i].node_size <= rem:
            off += kids_[i].node_size
            i += 1
        out.append(i)
        if rem == off or i >= len(kids_) or kids_[i].is_text:
            return out
        node, rem = kids_[i], rem - off - 1


@abstract
def rdepth(doc: "Node", pos: int) -> int:
    """depth of position pos in doc (name of what resolve answers; natively an independent walk)"""
    return len(_walk(doc, pos)) - 1


@abstract
def ridx(doc: "Node", pos: int, k: int) -> int:
    """index into the ancestor at depth k of position pos in doc"""
    w = _walk(doc, pos)
    return w[k] if 0 <= k < len(w) else -1
