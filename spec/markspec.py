"""Specification vocabulary for mark sets (C14, C11, C13)."""
from spec.native import all_, any_, implies, or_empty  # noqa: F401


def first_name(ex: "list[MarkType]", nm: "str", k: int) -> int:
    """first index >= k of a mark type named nm in ex, or -1"""
    if k < 0 or k >= len(ex):
        return -1
    if ex[k].name == nm:
        return k
    return first_name(ex, nm, k + 1)


def excl(a: "MarkType", b: "MarkType") -> bool:
    """a's type excludes b's type"""
    return first_name(a.excluded, b.name, 0) >= 0


def meq(a: "Mark", b: "Mark") -> bool:
    """marks are equal as (type, attributes)"""
    return a == b or (a.type.name == b.type.name and a.attrs == b.attrs)


def first_eq(me: "Mark", s: "list[Mark]", k: int) -> int:
    """first index >= k of a mark equal to me, or -1"""
    if k < 0 or k >= len(s):
        return -1
    if meq(s[k], me):
        return k
    return first_eq(me, s, k + 1)


def first_ne(a: "list[Mark]", b: "list[Mark]", k: int) -> int:
    """first index >= k where the two lists differ as marks (up to len(a)), or -1"""
    if k < 0 or k >= len(a) or k >= len(b):
        return -1
    if not meq(a[k], b[k]):
        return k
    return first_ne(a, b, k + 1)


def filt_ne(me: "Mark", s: "list[Mark]", k: int) -> "list[Mark]":
    """the first k marks of s without those equal to me"""
    if k <= 0:
        return s[0:0]
    if meq(s[k - 1], me):
        return filt_ne(me, s, k - 1)
    return filt_ne(me, s, k - 1) + [s[k - 1]]


def filt_type(mt: "MarkType", s: "list[Mark]", k: int) -> "list[Mark]":
    """the first k marks of s without those of type mt"""
    if k <= 0:
        return s[0:0]
    if s[k - 1].type == mt:
        return filt_type(mt, s, k - 1)
    return filt_type(mt, s, k - 1) + [s[k - 1]]


def first_of_type(mt: "MarkType", s: "list[Mark]", k: int) -> int:
    if k < 0 or k >= len(s):
        return -1
    if s[k].type == mt:
        return k
    return first_of_type(mt, s, k + 1)


def allows(nt: "NodeType", mt: "MarkType") -> bool:
    """parent type nt permits marks of type mt"""
    return nt.mark_set is None or mt in or_empty(nt.mark_set)


def first_disallowed(nt: "NodeType", s: "list[Mark]", k: int) -> int:
    if k < 0 or k >= len(s):
        return -1
    if not allows(nt, s[k].type):
        return k
    return first_disallowed(nt, s, k + 1)


def filt_allowed(nt: "NodeType", s: "list[Mark]", k: int) -> "list[Mark]":
    """the first k marks of s whose types nt allows, in order"""
    if k <= 0:
        return s[0:0]
    if allows(nt, s[k - 1].type):
        return filt_allowed(nt, s, k - 1) + [s[k - 1]]
    return filt_allowed(nt, s, k - 1)


# ---- add_to_set: the documented rule as a scan
def nodec(me: "Mark", s: "list[Mark]", k: int) -> bool:
    """none of the first k marks is decisive: equal to me, or excluding me without being excluded by me"""
    if k <= 0:
        return True
    return (
        nodec(me, s, k - 1)
        and not meq(me, s[k - 1])
        and (excl(me.type, s[k - 1].type) or not excl(s[k - 1].type, me.type))
    )


def placed(me: "Mark", s: "list[Mark]", k: int) -> bool:
    """me has been inserted (before a kept mark of greater rank) within the first k marks"""
    if k <= 0:
        return False
    if placed(me, s, k - 1):
        return True
    return (not excl(me.type, s[k - 1].type)) and s[k - 1].type.rank > me.type.rank


def addw(me: "Mark", s: "list[Mark]", k: int) -> "list[Mark]":
    """the result under construction after the first k marks: excluded marks dropped, me
    inserted before the first kept mark of greater rank"""
    if k <= 0:
        return s[0:0]
    if excl(me.type, s[k - 1].type):
        return addw(me, s, k - 1)
    if not placed(me, s, k - 1) and s[k - 1].type.rank > me.type.rank:
        return addw(me, s, k - 1) + [me, s[k - 1]]
    return addw(me, s, k - 1) + [s[k - 1]]


def add_result(me: "Mark", s: "list[Mark]") -> "list[Mark]":
    if not nodec(me, s, len(s)):
        return s
    if placed(me, s, len(s)):
        return addw(me, s, len(s))
    return addw(me, s, len(s)) + [me]
