"""Independent reading of content expressions as regular expressions over node-type names
(Brzozowski derivatives).  Native only; nothing here touches prosemirror.model.content."""
from __future__ import annotations

import re

EPS = ("eps",)
EMPTY = ("empty",)


def sym(a):
    return ("sym", a)


def cat(a, b):
    if a == EMPTY or b == EMPTY:
        return EMPTY
    if a == EPS:
        return b
    if b == EPS:
        return a
    if a[0] == "cat":  # right-nest
        return cat(a[1], cat(a[2], b))
    return ("cat", a, b)


def alt(*rs):
    items = set()
    for r in rs:
        if r == EMPTY:
            continue
        if r[0] == "alt":
            items |= r[1]
        else:
            items.add(r)
    if not items:
        return EMPTY
    if len(items) == 1:
        return next(iter(items))
    return ("alt", frozenset(items))


def star(r):
    if r in (EPS, EMPTY):
        return EPS
    if r[0] == "star":
        return r
    return ("star", r)


def nullable(r):
    t = r[0]
    if t == "eps" or t == "star":
        return True
    if t in ("empty", "sym"):
        return False
    if t == "cat":
        return nullable(r[1]) and nullable(r[2])
    return any(nullable(x) for x in r[1])


def deriv(r, a):
    t = r[0]
    if t in ("eps", "empty"):
        return EMPTY
    if t == "sym":
        return EPS if r[1] == a else EMPTY
    if t == "cat":
        d = cat(deriv(r[1], a), r[2])
        return alt(d, deriv(r[2], a)) if nullable(r[1]) else d
    if t == "alt":
        return alt(*[deriv(x, a) for x in r[1]])
    return cat(deriv(r[1], a), r)


def first(r):
    t = r[0]
    if t in ("eps", "empty"):
        return set()
    if t == "sym":
        return {r[1]}
    if t == "cat":
        return first(r[1]) | (first(r[2]) if nullable(r[1]) else set())
    if t == "alt":
        return set().union(*[first(x) for x in r[1]])
    return first(r[1])


def power(r, n):
    out = EPS
    for _ in range(n):
        out = cat(r, out)
    return out


class ParseError(Exception):
    pass


TOKEN = re.compile(r"\w+|\W")


def parse(expr: str, resolve):
    """resolve(name) -> list of type names (the type itself or the members of a group)."""
    toks = [t for t in TOKEN.findall(expr) if t.strip()]
    pos = [0]

    def peek():
        return toks[pos[0]] if pos[0] < len(toks) else None

    def eat(t):
        if peek() == t:
            pos[0] += 1
            return True
        return False

    def p_expr():
        rs = [p_seq()]
        while eat("|"):
            rs.append(p_seq())
        return alt(*rs) if len(rs) > 1 else rs[0]

    def p_seq():
        out = p_sub()
        while peek() is not None and peek() not in (")", "|"):
            out = cat(out, p_sub())
        return out

    def p_num():
        t = peek()
        if t is None or not t.isdigit():
            raise ParseError(f"expected number, got {t!r}")
        pos[0] += 1
        return int(t)

    def p_sub():
        r = p_atom()
        while True:
            if eat("+"):
                r = cat(r, star(r))
            elif eat("*"):
                r = star(r)
            elif eat("?"):
                r = alt(EPS, r)
            elif eat("{"):
                lo = p_num()
                hi = lo
                if eat(","):
                    hi = -1 if peek() == "}" else p_num()
                if not eat("}"):
                    raise ParseError("unclosed range")
                if hi == -1:
                    r = cat(power(r, lo), star(r))
                else:
                    if hi < lo:
                        raise ParseError("range max < min")
                    r = cat(power(r, lo), power(alt(EPS, r), hi - lo))
            else:
                return r

    def p_atom():
        t = peek()
        if t is None:
            raise ParseError("unexpected end")
        if eat("("):
            r = p_expr()
            if not eat(")"):
                raise ParseError("missing )")
            return r
        if re.match(r"\w", t):
            pos[0] += 1
            names = resolve(t)
            if not names:
                raise ParseError(f"unknown name {t}")
            return alt(*[sym(n) for n in names])
        raise ParseError(f"unexpected token {t!r}")

    if not toks:
        return EPS
    r = p_expr()
    if peek() is not None:
        raise ParseError("trailing text")
    return r


class DFA:
    """Derivative automaton; states are canonical regex terms."""

    def __init__(self, r, alphabet):
        self.start = r
        self.alphabet = list(alphabet)
        self.trans: dict = {}
        todo = [r]
        self.states = {r}
        while todo:
            s = todo.pop()
            for a in self.alphabet:
                d = deriv(s, a)
                self.trans[(s, a)] = d
                if d not in self.states:
                    self.states.add(d)
                    todo.append(d)
        # liveness: can reach an accepting state
        self.live = {s for s in self.states if nullable(s)}
        changed = True
        while changed:
            changed = False
            for (s, a), d in self.trans.items():
                if d in self.live and s not in self.live:
                    self.live.add(s)
                    changed = True

    def run(self, seq):
        s = self.start
        for a in seq:
            s = self.trans.get((s, a), EMPTY) if a in self.alphabet else EMPTY
        return s

    def accepts(self, seq):
        return nullable(self.run(seq))

    def alive(self, seq):
        return self.run(seq) in self.live
