"""Independent oracles over real documents: flat tokens, schema validity from the schema
*spec strings*, mark-set algebra.  None of these calls the library function it judges
(only plain attribute reads of Node / Fragment / Mark objects)."""
from __future__ import annotations

import json

from . import regex as rx


def canon_json(v):
    return json.dumps(v, sort_keys=True, default=str)


class OMarkType:
    def __init__(self, name, rank, spec):
        self.name, self.rank, self.spec = name, rank, spec
        self.attrs = spec.get("attrs") or {}
        self.groups = (spec.get("group") or "").split()
        self.excluded: set = set()


class ONodeType:
    def __init__(self, name, spec):
        self.name, self.spec = name, spec
        self.groups = (spec.get("group") or "").split()
        self.attrs = spec.get("attrs") or {}
        self.is_text = name == "text"
        self.inline = bool(spec.get("inline")) or self.is_text
        self.content_expr = spec.get("content", "") or ""
        self.regex = None
        self.dfa = None
        self.allowed_marks = None  # None = all
        self.is_leaf = False
        self.inline_content = False

    def has_required_attrs(self):
        return any("default" not in a for a in self.attrs.values())

    def generatable(self):
        return not self.is_text and not self.has_required_attrs()


class OSchema:
    """Schema semantics read off the spec dict (nodes / marks as given to Schema())."""

    def __init__(self, spec):
        self.spec = spec
        self.nodes = {n: ONodeType(n, s) for n, s in spec["nodes"].items()}
        self.marks = {m: OMarkType(m, i, s) for i, (m, s) in enumerate((spec.get("marks") or {}).items())}
        self.top = spec.get("topNode") or "doc"
        names = list(self.nodes)

        def resolve(name):
            if name in self.nodes:
                return [name]
            return [n for n in names if name in self.nodes[n].groups]

        for nt in self.nodes.values():
            nt.regex = rx.parse(nt.content_expr, resolve)
            nt.dfa = rx.DFA(nt.regex, names)
            fs = rx.first(nt.regex)
            nt.is_leaf = nt.regex == rx.EPS
            # inline content is decided by the first type of the first edge; expressions never
            # mix inline and block content, so any first symbol will do
            nt.inline_content = bool(fs) and self.nodes[sorted(fs, key=names.index)[0]].inline
        for nt in self.nodes.values():
            m = nt.spec.get("marks")
            if m == "_":
                nt.allowed_marks = None
            elif m:
                nt.allowed_marks = self.gather(m.split())
            elif m == "" or not nt.inline_content:
                nt.allowed_marks = set()
            else:
                nt.allowed_marks = None
        for mt in self.marks.values():
            ex = mt.spec.get("excludes")
            if ex is None:
                mt.excluded = {mt.name}
            elif ex == "":
                mt.excluded = set()
            else:
                mt.excluded = self.gather(ex.split())

    def gather(self, names):
        out = set()
        for n in names:
            if n in self.marks:
                out.add(n)
            else:
                for m in self.marks.values():
                    if n == "_" or n in m.groups:
                        out.add(m.name)
        return out

    # ---- marks
    def excludes(self, a, b):
        return b in self.marks[a].excluded

    def allows(self, parent, mark_name):
        am = self.nodes[parent].allowed_marks
        return am is None or mark_name in am

    def canon_marks(self, marks):
        """ordered by rank, no two equal (type, attrs).  Exclusion between members of a stored
        set is what Node.check demands via add_to_set reconstruction; see valid()."""
        keys = [(self.marks[m.type.name].rank) for m in marks]
        if keys != sorted(keys):
            return False
        seen = set()
        for m in marks:
            k = (m.type.name, canon_json(m.attrs))
            if k in seen:
                return False
            seen.add(k)
        return True

    def spec_add(self, new, old):
        """The documented add-to-set on (name, attrs-json) pairs: returns the new list."""
        nk = new
        for o in old:
            if o == nk:
                return list(old)
        out = []
        placed = False
        for o in old:
            if self.excludes(nk[0], o[0]):
                continue
            if self.excludes(o[0], nk[0]):
                return list(old)
            if not placed and self.marks[o[0]].rank > self.marks[nk[0]].rank:
                out.append(nk)
                placed = True
            out.append(o)
        if not placed:
            out.append(nk)
        return out

    def rebuild_ok(self, marks):
        """Node.check's criterion: re-adding the marks one by one gives the same set."""
        keys = [(m.type.name, canon_json(m.attrs)) for m in marks]
        cur = []
        for k in keys:
            cur = self.spec_add(k, cur)
        return cur == keys

    # ---- validity
    def valid(self, node, path="doc"):
        """-> None when valid, else a string saying what is wrong."""
        nt = self.nodes.get(node.type.name)
        if nt is None:
            return f"{path}: unknown type {node.type.name}"
        if set((node.attrs or {}).keys()) != set(nt.attrs.keys()):
            return f"{path}: attrs {sorted((node.attrs or {}).keys())} != declared {sorted(nt.attrs.keys())}"
        for m in node.marks:
            if m.type.name not in self.marks:
                return f"{path}: unknown mark {m.type.name}"
            mt = self.marks[m.type.name]
            if set((m.attrs or {}).keys()) != set(mt.attrs.keys()):
                return f"{path}: mark {mt.name} attrs {sorted((m.attrs or {}).keys())}"
        if not self.canon_marks(node.marks) or not self.rebuild_ok(node.marks):
            return f"{path}: mark set not canonical {[m.type.name for m in node.marks]}"
        if nt.is_text:
            if not getattr(node, "text", ""):
                return f"{path}: empty text"
            return None
        kids = node.content.content
        names = [k.type.name for k in kids]
        if not nt.dfa.accepts(names):
            return f"{path}: content {names} does not match {nt.content_expr!r} of {nt.name}"
        prev = None
        for i, k in enumerate(kids):
            for m in k.marks:
                if not self.allows(nt.name, m.type.name):
                    return f"{path}/{i}: mark {m.type.name} not allowed in {nt.name}"
            r = self.valid(k, f"{path}/{k.type.name}[{i}]")
            if r:
                return r
            prev = k
        if node.content.size != sum(node_size(k) for k in kids):
            return f"{path}: fragment size {node.content.size} != sum of children"
        return None


def u16len(s):
    return len(s.encode("utf-16-le")) // 2


def u16units(s):
    b = s.encode("utf-16-le")
    return [int.from_bytes(b[i : i + 2], "little") for i in range(0, len(b), 2)]


def node_size(n):
    if n.type.name == "text":
        return u16len(n.text)
    if is_leaf(n):
        return 1
    return 2 + sum(node_size(k) for k in n.content.content)


def is_leaf(n):
    # a node type is a leaf when its content expression is empty
    return not (n.type.spec.get("content") or "") and n.type.name != "text"


def mark_key(m):
    return (m.type.name, canon_json(m.attrs))


def tokens(node, top=True):
    """Flat token list of a node's content (top=True) or of the node itself."""
    out = []

    def walk(n):
        if n.type.name == "text":
            ms = tuple(mark_key(m) for m in n.marks)
            for u in u16units(n.text):
                out.append(("char", u, ms))
        elif is_leaf(n):
            out.append(("leaf", n.type.name, canon_json(n.attrs), tuple(mark_key(m) for m in n.marks)))
        else:
            out.append(("open", n.type.name, canon_json(n.attrs), tuple(mark_key(m) for m in n.marks)))
            for k in n.content.content:
                walk(k)
            out.append(("close", n.type.name))

    if top:
        for k in node.content.content:
            walk(k)
    else:
        walk(node)
    return out


def frag_tokens(frag):
    out = []
    for k in frag.content:
        out.extend(tokens(k, top=False))
    return out


def leafseq(node):
    """text characters (with marks) and leaf nodes, in order"""
    return [t for t in tokens(node) if t[0] in ("char", "leaf")]


def textseq(toks):
    return [t[1] for t in toks if t[0] == "char"]


def depth_at(toks, pos):
    d = 0
    for t in toks[:pos]:
        if t[0] == "open":
            d += 1
        elif t[0] == "close":
            d -= 1
    return d


def normal_form(node):
    """no two adjacent text children with the same marks anywhere"""
    kids = node.content.content
    for a, b in zip(kids, kids[1:]):
        if a.type.name == "text" and b.type.name == "text" and [mark_key(m) for m in a.marks] == [mark_key(m) for m in b.marks]:
            return False
    return all(normal_form(k) for k in kids if k.type.name != "text")


def is_subsequence(small, big):
    it = iter(big)
    return all(any(x == y for y in it) for x in small)


# ---------------------------------------------------------------- oracle tree with positions
class ON:
    """Plain mirror of a node built from attribute reads, with absolute positions."""

    __slots__ = ("node", "name", "marks", "attrs", "text", "kids", "size", "pos", "parent", "index", "leaf")

    def __init__(self, node, pos, parent, index):
        self.node = node
        self.name = node.type.name
        self.marks = [mark_key(m) for m in node.marks]
        self.attrs = canon_json(node.attrs)
        self.text = getattr(node, "text", None) if self.name == "text" else None
        self.parent = parent
        self.index = index
        self.pos = pos  # position before this node (doc: -1)
        self.leaf = is_leaf(node)
        self.kids = []
        if self.text is not None:
            self.size = u16len(self.text)
        elif self.leaf:
            self.size = 1
        else:
            p = pos + 1
            for i, k in enumerate(node.content.content):
                c = ON(k, p, self, i)
                self.kids.append(c)
                p += c.size
            self.size = p - pos + 1

    @property
    def content_start(self):
        return self.pos + 1

    @property
    def content_end(self):
        return self.pos + self.size - 1


def otree(doc):
    return ON(doc, -1, None, 0)


def resolve_o(root, pos):
    """-> list of (ON ancestor, index, offset-of-that-index) from the root down, plus text offset"""
    path = []
    n = root
    while True:
        off = n.content_start
        idx = 0
        hit = None
        for k in n.kids:
            if off + k.size > pos >= off and not (pos == off):
                hit = k
                break
            if pos == off:
                break
            off += k.size
            idx += 1
        if hit is None:
            path.append((n, idx, off))
            return path, 0
        if hit.text is not None:
            path.append((n, idx, off))
            return path, pos - off
        if hit.leaf:
            # cannot be strictly inside a leaf
            path.append((n, idx, off))
            return path, 0
        path.append((n, idx, off))
        n = hit


def tokens_m(node, top=True):
    """tokens whose close carries the full markup (for suffix comparison)"""
    out = []

    def walk(n):
        if n.type.name == "text":
            ms = tuple(mark_key(m) for m in n.marks)
            for u in u16units(n.text):
                out.append(("char", u, ms))
        elif is_leaf(n):
            out.append(("leaf", n.type.name, canon_json(n.attrs), tuple(mark_key(m) for m in n.marks)))
        else:
            mk = (n.type.name, canon_json(n.attrs), tuple(mark_key(m) for m in n.marks))
            out.append(("open",) + mk)
            for k in n.content.content:
                walk(k)
            out.append(("close",) + mk)

    if top:
        for k in node.content.content:
            walk(k)
    else:
        walk(node)
    return out


def frag_tokens_m(frag):
    out = []
    for k in frag.content:
        out.extend(tokens_m(k, top=False))
    return out
