"""Specification vocabulary for position maps (C08, C03, C04, C17).

Every function here is in the verifiable subset: pyvc translates it to an SMT recursive
definition (tier P), and CPython executes the very same text as the oracle in tier B
and in replays.  `r` is the raw ranges list [start, oldSize, newSize]*, `inv` the
`inverted` flag; all coordinates are in the map's own pre-image ("old") document.
"""
from spec.native import all_, any_, implies  # noqa: F401


def nranges(r: "list[int]") -> int:
    return len(r) // 3


def old_(r: "list[int]", inv: bool, k: int) -> int:
    return r[3 * k + 2] if inv else r[3 * k + 1]


def new_(r: "list[int]", inv: bool, k: int) -> int:
    return r[3 * k + 1] if inv else r[3 * k + 2]


def D(r: "list[int]", inv: bool, k: int) -> int:
    """sum over the first k ranges of (new - old)"""
    if k <= 0:
        return 0
    return D(r, inv, k - 1) + new_(r, inv, k - 1) - old_(r, inv, k - 1)


def start_(r: "list[int]", inv: bool, k: int) -> int:
    return r[3 * k] - D(r, inv, k) if inv else r[3 * k]


def end_(r: "list[int]", inv: bool, k: int) -> int:
    return start_(r, inv, k) + old_(r, inv, k)


def nstart_(r: "list[int]", inv: bool, k: int) -> int:
    """start of range k in post-image ("new") coordinates"""
    return start_(r, inv, k) + D(r, inv, k)


def nend_(r: "list[int]", inv: bool, k: int) -> int:
    return nstart_(r, inv, k) + new_(r, inv, k)


def gap(r: "list[int]", inv: bool, pos: int, m: int) -> bool:
    """pos lies strictly between range m-1 and range m (m == n: after the last)"""
    return (m == 0 or end_(r, inv, m - 1) < pos) and (m == len(r) // 3 or pos < start_(r, inv, m))


def inside(r: "list[int]", inv: bool, pos: int, m: int) -> bool:
    """range m is the first range with start <= pos <= end"""
    return start_(r, inv, m) <= pos and pos <= end_(r, inv, m) and (m == 0 or end_(r, inv, m - 1) < pos)


def side(r: "list[int]", inv: bool, pos: int, assoc: int, m: int) -> int:
    if old_(r, inv, m) == 0:
        return assoc
    if pos == start_(r, inv, m):
        return -1
    if pos == end_(r, inv, m):
        return 1
    return assoc


def inside_result(r: "list[int]", inv: bool, pos: int, assoc: int, m: int) -> int:
    return nstart_(r, inv, m) + (0 if side(r, inv, pos, assoc, m) < 0 else new_(r, inv, m))


def rule_from(r: "list[int]", inv: bool, pos: int, assoc: int, k: int) -> int:
    """the documented mapping rule, scanning from range k"""
    if k < 0 or k >= len(r) // 3:
        return pos + D(r, inv, len(r) // 3)
    if start_(r, inv, k) > pos:
        return pos + D(r, inv, k)
    if pos <= end_(r, inv, k):
        return inside_result(r, inv, pos, assoc, k)
    return rule_from(r, inv, pos, assoc, k + 1)


def rule(r: "list[int]", inv: bool, pos: int, assoc: int) -> int:
    return rule_from(r, inv, pos, assoc, 0)


def recover_plain(r: "list[int]", inv: bool, pos: int, assoc: int, m: int) -> bool:
    """inside range m: no recover value is reported"""
    return pos == (start_(r, inv, m) if assoc < 0 else end_(r, inv, m))


def del_flags(r: "list[int]", inv: bool, pos: int, assoc: int, m: int) -> int:
    """deletion flags for a position inside range m (bits are disjoint, so | is +)"""
    base = 2 if pos == start_(r, inv, m) else (1 if pos == end_(r, inv, m) else 4)
    sidebit = 8 if ((pos != start_(r, inv, m)) if assoc < 0 else (pos != end_(r, inv, m))) else 0
    return base + sidebit


def first_idx(m: "list[int]", n: int, k: int) -> int:
    """first index i >= k with m[i] == n, or -1"""
    if k < 0 or k >= len(m):
        return -1
    if m[k] == n:
        return k
    return first_idx(m, n, k + 1)


def mirror_of(m: "list[int]", n: int) -> int:
    """registered mirror of map index n, or -1"""
    i = first_idx(m, n, 0)
    if i < 0:
        return -1
    return m[i - 1] if i % 2 == 1 else m[i + 1]


def fe_trace(r: "list[int]", inv: bool, k: int) -> "list[int]":
    """what for_each reports for the first k ranges, flattened"""
    if k <= 0:
        return r[0:0]
    return fe_trace(r, inv, k - 1) + [
        start_(r, inv, k - 1),
        end_(r, inv, k - 1),
        nstart_(r, inv, k - 1),
        nend_(r, inv, k - 1),
    ]


def wf(r: "list[int]", inv: bool) -> bool:
    """well-formed ranges: triples, non-negative, ordered (adjacent allowed)"""
    return (
        len(r) % 3 == 0
        and len(r) // 3 <= 65536  # the recover encoding keeps the range index in 16 bits
        and all_(0, len(r), lambda i: r[i] >= 0)
        and all_(0, len(r) // 3, lambda a: all_(a + 1, len(r) // 3, lambda b: end_(r, inv, a) <= start_(r, inv, b)))
    )


def wf_adj(r: "list[int]", inv: bool) -> bool:
    """the same with the order stated between neighbours only (what a constructor can check)"""
    return (
        len(r) % 3 == 0
        and all_(0, len(r), lambda i: r[i] >= 0)
        and all_(0, len(r) // 3 - 1, lambda a: end_(r, inv, a) <= start_(r, inv, a + 1))
    )


def sep(r: "list[int]", inv: bool) -> bool:
    """strictly separated ranges"""
    return all_(0, len(r) // 3, lambda a: all_(a + 1, len(r) // 3, lambda b: end_(r, inv, a) < start_(r, inv, b)))


def am_mirror(mm: "list[int]", start: int, k: int) -> "list[int]":
    """mirror pairs that append_mapping registers for the first k appended maps"""
    if k <= 0:
        return mm[0:0]
    if first_idx(mm, k - 1, 0) >= 0 and mirror_of(mm, k - 1) < k - 1:
        return am_mirror(mm, start, k - 1) + [start + k - 1, start + mirror_of(mm, k - 1)]
    return am_mirror(mm, start, k - 1)


def ami_mirror(mm: "list[int]", total: int, n: int, k: int) -> "list[int]":
    """mirror pairs that append_mapping_inverted registers after handling maps n-1 .. n-k;
    `total` is len(self.maps) + len(mapping.maps) at entry"""
    if k <= 0:
        return mm[0:0]
    if first_idx(mm, n - k, 0) >= 0 and mirror_of(mm, n - k) > n - k:
        return ami_mirror(mm, total, n, k - 1) + [total - n + k - 1, total - mirror_of(mm, n - k) - 1]
    return ami_mirror(mm, total, n, k - 1)


def find_m(r: "list[int]", inv: bool, pos: int, k: int) -> int:
    """index of the first range at or after k that contains pos (start <= pos <= end), or -1
    when pos falls in a gap"""
    if k < 0 or k >= len(r) // 3:
        return -1
    if start_(r, inv, k) > pos:
        return -1
    if pos <= end_(r, inv, k):
        return k
    return find_m(r, inv, pos, k + 1)


def recover_of(r: "list[int]", inv: bool, pos: int, assoc: int) -> int:
    """the recover value map_result reports, or -1 for None"""
    m = find_m(r, inv, pos, 0)
    if m < 0:
        return -1
    if recover_plain(r, inv, pos, assoc, m):
        return -1
    return m + (pos - start_(r, inv, m)) * 65536


def recover_fn(r: "list[int]", inv: bool, value: int) -> int:
    """StepMap.recover as a function"""
    k = value % 65536
    return r[3 * k] + (0 if inv else D(r, False, k)) + (value - value % 65536) // 65536


def compose(ms: "list[StepMap]", frm: int, to: int, pos: int, assoc: int) -> int:
    """left-to-right composition of the maps frm..to-1"""
    if to <= frm:
        return pos
    return rule(ms[to - 1].ranges, ms[to - 1].inverted, compose(ms, frm, to - 1, pos, assoc), assoc)


def mcompose(ms: "list[StepMap]", mirror: "list[int]", i: int, to: int, pos: int, assoc: int) -> int:
    """composition from map i on, taking the registered mirror jumps"""
    if i < 0 or i >= to:
        return pos
    rec = recover_of(ms[i].ranges, ms[i].inverted, pos, assoc)
    corr = mirror_of(mirror, i)
    if rec >= 0 and first_idx(mirror, i, 0) >= 0 and corr > i and corr < to:
        return mcompose(ms, mirror, corr + 1, to, recover_fn(ms[corr].ranges, ms[corr].inverted, rec), assoc)
    return mcompose(ms, mirror, i + 1, to, rule(ms[i].ranges, ms[i].inverted, pos, assoc), assoc)
