"""Specification vocabulary for fragments and nodes (C02, C09, C20, C01)."""
from spec.native import abstract, all_, any_, implies  # noqa: F401


@abstract
def u16(s: "str") -> int:
    """length in UTF-16 code units (A7: uninterpreted in tier P, axioms in the sidecar)"""
    return len(s.encode("utf-16-le")) // 2


@abstract
def leaf_t(t: "NodeType") -> bool:
    """the node type's content expression is empty"""
    return t.is_leaf


@abstract
def atom_t(t: "NodeType") -> bool:
    """the node type is a leaf or declared `atom` (an atom may still have content)"""
    return t.is_atom


def nsize(n: "Node") -> int:
    """token size of a node"""
    if n.type.is_text:
        return u16(n.text)
    if leaf_t(n.type):
        return 1
    return 2 + n.content.size


def pre(c: "list[Node]", k: int) -> int:
    """total size of the first k nodes"""
    if k <= 0:
        return 0
    return pre(c, k - 1) + nsize(c[k - 1])


def same_markup_s(a: "Node", b: "Node") -> bool:
    return same_markup_fn(a, b)


@abstract
def same_markup_fn(a: "Node", b: "Node") -> bool:
    return a.same_markup(b)
