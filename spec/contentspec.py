"""Specification vocabulary for compiled content matchers (C07, C15): the automaton run."""
from spec.native import abstract, all_, any_, implies  # noqa: F401


@abstract
def req_attrs(t: "NodeType") -> bool:
    return t.has_required_attrs()



def edge_idx(edges: "list[MatchEdge]", name: "str", k: int) -> int:
    """index of the first edge at or after k whose type has that name, or -1"""
    if k < 0 or k >= len(edges):
        return -1
    if edges[k].type.name == name:
        return k
    return edge_idx(edges, name, k + 1)


def step_ok(m: "ContentMatch", t: "NodeType") -> bool:
    return edge_idx(m.next, t.name, 0) >= 0


def step_st(m: "ContentMatch", t: "NodeType") -> "ContentMatch":
    return m.next[edge_idx(m.next, t.name, 0)].next


def run_ok(m: "ContentMatch", c: "list[Node]", i: int, end: int) -> bool:
    """the automaton started in m survives the children i..end-1"""
    if i >= end:
        return True
    if not step_ok(m, c[i].type):
        return False
    return run_ok(step_st(m, c[i].type), c, i + 1, end)


def run_st(m: "ContentMatch", c: "list[Node]", i: int, end: int) -> "ContentMatch":
    """the state reached (meaningful when run_ok)"""
    if i >= end:
        return m
    return run_st(step_st(m, c[i].type), c, i + 1, end)


def compat_idx(a: "list[MatchEdge]", b: "list[MatchEdge]", k: int) -> int:
    """first index >= k of an edge of a whose type name also labels an edge of b, or -1"""
    if k < 0 or k >= len(a):
        return -1
    if edge_idx(b, a[k].type.name, 0) >= 0:
        return k
    return compat_idx(a, b, k + 1)


def first_bad_child(nt: "NodeType", c: "list[Node]", i: int, end: int) -> int:
    """first child index in i..end-1 whose marks the parent type does not allow, or -1"""
    if i < 0 or i >= end or i >= len(c):
        return -1
    if first_disallowed(nt, c[i].marks, 0) >= 0:
        return i
    return first_bad_child(nt, c, i + 1, end)


def valid_seq(nt: "NodeType", c: "list[Node]") -> bool:
    """the child sequence matches the type's content expression (as compiled) to a valid end and
    every child's marks are allowed"""
    return (
        run_ok(nt.content_match, c, 0, len(c))
        and run_st(nt.content_match, c, 0, len(c)).valid_end
        and first_bad_child(nt, c, 0, len(c)) < 0
    )


def replace_ok(nt: "NodeType", c: "list[Node]", frm: int, to: int, r: "list[Node]", start: int, end: int) -> bool:
    """children c[:frm] + r[start:end] + c[to:] match to a valid end (run compositionally) and the
    inserted children's marks are allowed"""
    return (
        run_ok(run_st(nt.content_match, c, 0, frm), r, start, end)
        and run_ok(run_st(run_st(nt.content_match, c, 0, frm), r, start, end), c, to, len(c))
        and run_st(run_st(run_st(nt.content_match, c, 0, frm), r, start, end), c, to, len(c)).valid_end
        and first_bad_child(nt, r, start, end) < 0
    )


def gen_idx(edges: "list[MatchEdge]", k: int) -> int:
    """index of the first edge at or after k whose type is generatable (not text, no required attributes), or -1"""
    if k < 0 or k >= len(edges):
        return -1
    if not (edges[k].type.is_text or req_attrs(edges[k].type)):
        return k
    return gen_idx(edges, k + 1)
