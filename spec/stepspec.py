"""Native meaning of the uninterpreted vocabulary of the step contracts (C03, C04, C16, C17)."""
from spec.native import abstract, all_, any_, implies  # noqa: F401


@abstract
def mpos(m: "Mappable", pos: int, assoc: int) -> int:
    """what the mappable answers for a position"""
    return m.map(pos, assoc)


@abstract
def mdelinfo(m: "Mappable", pos: int, assoc: int) -> int:
    return m.map_result(pos, assoc).del_info
