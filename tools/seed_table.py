"""print the markdown table of seeded changes (DESIGN.md section 9.4) from seeded/*/meta.json"""
import json
import os
import re

ROOT = os.path.dirname(os.path.dirname(os.path.abspath(__file__)))
rows = []
for sid in sorted(os.listdir(os.path.join(ROOT, "seeded"))):
    mp = os.path.join(ROOT, "seeded", sid, "meta.json")
    if not os.path.exists(mp):
        continue
    m = json.load(open(mp))
    diff = open(os.path.join(ROOT, "seeded", sid, "patch.diff")).read()
    files = sorted(set(re.findall(r"^\+\+\+ b/(\S+)", diff, re.M)))
    funcs = sorted(set(re.findall(r"^@@.*@@\s*(?:def|class)?\s*(\w+)", diff, re.M)))
    how = []
    for p, r in sorted(m.get("checks", {}).items()):
        if r.get("exit") == 1:
            kinds = set()
            for l in r.get("lines", []):
                if "obligation" in l and "refuted" in l:
                    kinds.add("P")
                elif "native contract" in l:
                    kinds.add("N")
                elif l.strip().startswith("violated"):
                    kinds.add("B")
            how.append(f"{p}({'+'.join(sorted(kinds)) or '?'})")
    missed = [p for p, r in sorted(m.get("checks", {}).items()) if r.get("exit") == 0 and p == m.get("property")]
    rows.append((sid, ", ".join(f.replace("prosemirror/", "") for f in files), ", ".join(funcs[:3]), ", ".join(how) or "-", ", ".join(missed)))
print("| seed | file | function (hunk) | caught by (P = refuted obligation, N = native contract, B = bounded oracle) | own check silent |")
print("|------|------|-----------------|------|------|")
for r in rows:
    print("| " + " | ".join(r) + " |")
