"""Re-evaluate the kept seeded changes against the current checks, without touching /repo:
each patch is applied to its own scratch worktree (under /tmp, removed afterwards) and the
checks run against it through VERIF_REPO.

   python3 tools/seed_matrix.py [--par N] [--props C01,C02] [seed ids...]

Updates seeded/<id>/meta.json (checks, caught_by) and prints one line per seed."""
import concurrent.futures as cf
import json
import os
import subprocess
import sys
import time

ROOT = os.path.dirname(os.path.dirname(os.path.abspath(__file__)))


def sh(cmd, cwd=None, env=None, timeout=3600):
    e = dict(os.environ)
    e.update(env or {})
    p = subprocess.run(cmd, shell=True, cwd=cwd, env=e, capture_output=True, text=True, timeout=timeout)
    return p.returncode, (p.stdout + p.stderr)


def evaluate(sid, only_props=None, jobs=8):
    d = os.path.join(ROOT, "seeded", sid)
    meta_p = os.path.join(d, "meta.json")
    meta = json.load(open(meta_p)) if os.path.exists(meta_p) else dict(id=sid, property=sid.split("-")[1])
    props = only_props or sorted(set([meta["property"]] + list(meta.get("checks", {}).keys())))
    wt = f"/tmp/sm_{sid}"
    sh(f"git -C /repo worktree remove --force {wt}")
    rc, out = sh(f"git -C /repo worktree add --detach {wt} HEAD")
    if rc != 0:
        return sid, {"error": out[-300:]}
    results = {}
    try:
        rc, out = sh(f"git apply {d}/patch.diff", cwd=wt)
        if rc != 0:
            return sid, {"error": "patch does not apply: " + out[-300:]}
        for p in props:
            t0 = time.time()
            rc, out = sh(f"./check {p} --tier quick", cwd=ROOT, env={"VERIF_REPO": wt, "VERIF_JOBS": str(jobs)}, timeout=3600)
            vio = [l for l in out.splitlines() if l.startswith("VIOLATION") or l.strip().startswith("violated:")]
            results[p] = dict(exit=rc, wall_s=round(time.time() - t0, 1), lines=[l[:300] for l in vio[:6]],
                              broken=[l[:300] for l in out.splitlines() if l.startswith("CHECKER-BROKEN")][:3])
    finally:
        sh(f"git -C /repo worktree remove --force {wt}")
        sh("git -C /repo worktree prune")
    meta["checks"] = {**meta.get("checks", {}), **results}
    meta["caught_by"] = sorted(p for p, r in meta["checks"].items() if r.get("exit") == 1)
    meta["evaluated_at_verif_commit"] = sh("git rev-parse --short HEAD", cwd=ROOT)[1].strip()
    json.dump(meta, open(meta_p, "w"), indent=1)
    return sid, results


def main():
    args = sys.argv[1:]
    par = 2
    only = None
    ids = []
    while args:
        a = args.pop(0)
        if a == "--par":
            par = int(args.pop(0))
        elif a == "--props":
            only = args.pop(0).split(",")
        else:
            ids.append(a)
    if not ids:
        ids = sorted(x for x in os.listdir(os.path.join(ROOT, "seeded")) if os.path.exists(os.path.join(ROOT, "seeded", x, "patch.diff")))
    with cf.ThreadPoolExecutor(par) as ex:
        futs = {ex.submit(evaluate, sid, only, max(4, 16 // par)): sid for sid in ids}
        for f in cf.as_completed(futs):
            sid, res = f.result()
            if "error" in res:
                print(f"{sid}: ERROR {res['error']}")
                continue
            print(f"{sid}: " + "  ".join(f"{p}=exit{r['exit']}({r['wall_s']}s)" + ("[BROKEN]" if r["broken"] else "") for p, r in res.items()))
            for p, r in res.items():
                for l in r["lines"][:2]:
                    print("      ", l[:200])


if __name__ == "__main__":
    main()
