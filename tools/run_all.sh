#!/bin/sh
# run every registered quick check on the current tree; print one line per property
cd "$(dirname "$0")/.." || exit 1
for p in $(python3 -c "import json; print(' '.join(c['property_id'] for c in json.load(open('MANIFEST.json'))['checks']))"); do
  s=$(date +%s); ./check $p --tier ${1:-quick} > out/log_$p.txt 2>&1; rc=$?
  echo "$p exit=$rc $(( $(date +%s) - s ))s  $(grep -c '^VIOLATION' out/log_$p.txt) violations, $(grep -c '^KNOWN-FINDING' out/log_$p.txt) known, $(grep -c '^UNDECIDED' out/log_$p.txt) undecided | $(grep '^tier P' out/log_$p.txt | cut -c1-90)"
done
