"""Regenerate MANIFEST.json from checker/props.py (run with python3)."""
import json
import os
import sys

ROOT = os.path.dirname(os.path.dirname(os.path.abspath(__file__)))
sys.path.insert(0, ROOT)
from checker.props import PROPS, NOT_APPLICABLE  # noqa: E402

props = [json.loads(l) for l in open(os.path.join(ROOT, "properties.jsonl"))]
checks = []
for p in props:
    pid = p["id"]
    if pid not in PROPS or not PROPS[pid].get("registered", True):
        continue
    c = PROPS[pid]
    checks.append(dict(
        property_id=pid,
        quick_cmd=f"./check {pid} --tier quick",
        thorough_cmd=f"./check {pid} --tier thorough",
        evidence_file=f"evidence/{pid}.json",
        replay_cmd_template=f"./check {pid} --replay {{path}}",
        engine="pyvc+bounded",
        level_claimed=dict(category=c["level"], text=c["level_text"], design_ref=f"DESIGN.md section 4, {pid}"),
        level_note=c["level_note"],
        technique=c["technique"],
    ))
na = []
for p in props:
    if p["id"] not in {c["property_id"] for c in checks}:
        na.append(dict(property_id=p["id"], reason=NOT_APPLICABLE.get(p["id"], "check not built yet (build in progress); see DESIGN.md")))
m = dict(
    version=1,
    setup_cmd="./setup.sh",
    hooks=dict(
        guard="FELLOWAPP_PROSEMIRROR_PY_VERIF",
        enable="none needed: contracts are sidecar files under /verif/contracts, runtime contract wrappers are installed by the harness in its own process; nothing in /repo is instrumented",
        baseline_off_cmd="cd /repo && /venv/bin/python -m pytest -ra -q -p no:cacheprovider --timeout=900 --continue-on-collection-errors",
        source_commits=[],
        add_only=True,
    ),
    engines=[
        dict(name="pyvc", path="pyvc/", serves_properties=[c["property_id"] for c in checks],
             kind_free_text="verification-condition generator for a Python subset: re-reads /repo source with ast on every run, symbolic execution against sidecar contracts (pre/post, loop invariants, frames), obligations discharged by z3 5.1 (cvc5 / z3 4.8 for unknowns); counter-models replayed natively"),
        dict(name="bounded", path="bounded/", serves_properties=[c["property_id"] for c in checks],
             kind_free_text="the same sidecar contracts evaluated at run time plus independent oracles over enumerated domains (bounded stand-in; never counted as proved)"),
    ],
    checks=checks,
    notes="Technique family: contract-based deductive verification of the real code. Each check runs tier P (deductive, unbounded) then tier B (bounded stand-in / cross-check). See DESIGN.md.",
    not_applicable=na,
)
json.dump(m, open(os.path.join(ROOT, "MANIFEST.json"), "w"), indent=1)
print(len(checks), "checks,", len(na), "not applicable")
