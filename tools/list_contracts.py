import sys
sys.path.insert(0, '/verif')
from pyvc import api
from pyvc.solve import load_sidecars
load_sidecars(sys.argv[1:])
for k, c in api.CONTRACTS.items():
    print(k, "TRUSTED" if c.trusted else "", c.props)
print("LEMMAS", list(api.LEMMAS))
