"""print per-property tier P figures from the evidence files (for DESIGN.md 9.3)"""
import glob
import json
import os

ROOT = os.path.dirname(os.path.dirname(os.path.abspath(__file__)))
for f in sorted(glob.glob(os.path.join(ROOT, "evidence", "C*.json"))):
    d = json.load(open(f))
    c = d["coverage"]
    fn = c.get("functions_under_contract") or []
    print(f"{d['property_id']}: P {c.get('discharged', 0)}/{c.get('obligations', 0)} over {len(fn)} functions + {len(c.get('lemmas') or [])} lemmas; "
          f"native {sum((c.get('native_contract_calls_checked') or {}).values())} checked calls; B {c.get('evaluations')} evaluations; wall {d.get('wall_s')}s; level {d['level']}")
