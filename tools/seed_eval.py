"""Evaluate a seeded defect produced in a scratch worktree:
   python3 tools/seed_eval.py <seed id> <property> <worktree> [extra property ids to run...]
1. confirm in the worktree: suite passes with the change, demo fails with it and passes without it
2. store it as /verif/seeded/<seed id>/ (patch.diff, demo.py, notes.md, meta.json)
3. apply the patch to /repo, run the quick checks, undo the patch; record which checks caught it."""
import json
import os
import shutil
import subprocess
import sys
import time

ROOT = os.path.dirname(os.path.dirname(os.path.abspath(__file__)))


def sh(cmd, cwd=None, env=None, timeout=3600):
    e = dict(os.environ)
    e.update(env or {})
    p = subprocess.run(cmd, shell=True, cwd=cwd, env=e, capture_output=True, text=True, timeout=timeout)
    return p.returncode, (p.stdout + p.stderr)


def main():
    sid, prop, wt = sys.argv[1], sys.argv[2], sys.argv[3]
    extra = sys.argv[4:]
    seed = os.path.join(wt, "_seed")
    env = {"PYTHONPATH": wt}
    ran = []
    # --- confirm in the worktree
    rc, out = sh("git status --short", cwd=wt)
    if " M " not in out and "M " not in out:
        sh("git apply _seed/patch.diff", cwd=wt)
    rc_t, out_t = sh("/venv/bin/python -m pytest -q -p no:cacheprovider -x 2>&1 | tail -3", cwd=wt, env=env)
    ran.append(f"cd {wt} && PYTHONPATH={wt} /venv/bin/python -m pytest -q -p no:cacheprovider  -> {out_t.strip().splitlines()[-1] if out_t.strip() else rc_t}")
    tests_pass = "passed" in out_t and "failed" not in out_t
    rc_d1, out_d1 = sh("/venv/bin/python _seed/demo.py", cwd=wt, env=env, timeout=300)
    ran.append(f"demo with change -> exit {rc_d1}")
    sh("git apply -R _seed/patch.diff", cwd=wt)
    rc_d0, out_d0 = sh("/venv/bin/python _seed/demo.py", cwd=wt, env=env, timeout=300)
    ran.append(f"demo without change -> exit {rc_d0}")
    sh("git apply _seed/patch.diff", cwd=wt)
    confirmed = tests_pass and rc_d1 != 0 and rc_d0 == 0
    print("confirmed:", confirmed, "| tests:", out_t.strip().splitlines()[-1:], "| demo with:", rc_d1, "| demo without:", rc_d0)
    if not confirmed:
        print("NOT KEPT")
        return 1
    dst = os.path.join(ROOT, "seeded", sid)
    os.makedirs(dst, exist_ok=True)
    for f in ("patch.diff", "demo.py", "notes.md"):
        if os.path.exists(os.path.join(seed, f)):
            shutil.copy(os.path.join(seed, f), os.path.join(dst, f))
    # --- run the checks against it (in a scratch worktree through VERIF_REPO; /repo is not touched)
    sys.path.insert(0, os.path.join(ROOT, "tools"))
    import seed_matrix

    json.dump(dict(id=sid, property=prop), open(os.path.join(dst, "meta.json"), "w"))
    _, results = seed_matrix.evaluate(sid, [prop] + extra, jobs=16)
    if "error" in results:
        print("evaluation failed:", results["error"])
        return 2
    for p, r in results.items():
        print(f"check {p}: exit {r['exit']} in {r['wall_s']}s")
        for l in r["lines"][:4]:
            print("    ", l[:260])
    notes = open(os.path.join(dst, "notes.md")).read() if os.path.exists(os.path.join(dst, "notes.md")) else ""
    meta = dict(id=sid, property=prop, needs_to_manifest=notes[:1500], confirmed=dict(tests_pass_with_change=tests_pass, demo_fails_with_change=rc_d1 != 0, demo_passes_without=rc_d0 == 0),
                ran=ran, checks=results, caught_by=[p for p, r in results.items() if r["exit"] == 1])
    meta["evaluated_at_verif_commit"] = sh("git rev-parse --short HEAD", cwd=ROOT)[1].strip()
    json.dump(meta, open(os.path.join(dst, "meta.json"), "w"), indent=1)
    print("caught by:", meta["caught_by"])
    return 0


if __name__ == "__main__":
    sys.exit(main())
